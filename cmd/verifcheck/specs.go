package main

var realStub = map[string][]string{
	"real_code": {"all of goplus/gogen (verification build: unordered iteration, sync.Pool and function entries behind seams, otherwise the current tree)",
		"go/types, go/parser, go/format, gc export-data reader", "OS file system in a scratch directory", "real goroutines and the Go race detector", "os/exec (real fork/exec of the stub)"},
	"stubs": {"the `go list` command (scripted static executable first on PATH)", "the package fingerprint function (scripted from the simulated world)",
		"the front end driving the builder (minicl stands in for XGo's cl)", "synthetic imported packages"},
}

func specs() map[string]propSpec {
	m := map[string]propSpec{}
	m["C20"] = propSpec{
		ID:       "C20",
		NeedStub: true,
		Jobs: []job{
			{Label: "seq", Pkg: "./sim/engines/c20", Env: []string{"VERIF_MODE=seq"}, Workers: [2]int{6, 8}, Checks: [2]int{0, 0}, Budget: [2]int{45, 600}},
			{Label: "sweep", Pkg: "./sim/engines/c20", Env: []string{"VERIF_MODE=sweep"}, Workers: [2]int{2, 3}, Checks: [2]int{0, 0}, Budget: [2]int{45, 600}},
			{Label: "conc", Pkg: "./sim/engines/c20", Env: []string{"VERIF_MODE=conc"}, Workers: [2]int{3, 3}, Checks: [2]int{0, 0}, Budget: [2]int{45, 600}},
			{Label: "conc-race", Pkg: "./sim/engines/c20", Race: true, Env: []string{"VERIF_MODE=conc"}, Workers: [2]int{5, 5}, Checks: [2]int{0, 0}, Budget: [2]int{45, 600}},
		},
		Rule: "records are drawn by rapid from the worker seed: a world of 2-8 packages with dependency lists, untracked and invalid fingerprints; " +
			"sweep = a populated cache is saved and every prefix and every zero-tailed variant of the saved file is loaded into a fresh cache (crash during Save at every byte offset); " +
			"seq = one caller issuing Find/Prepare/Save/Load/restart interleaved with version bumps, export-file deletion, listing faults and cache-file damage, checked operation by operation against the by-the-letter reference model; " +
			"conc = 1-3 callers sharing one cache plus a world task under the baton scheduler (builder-call, fingerprint-callback and function-entry yield points), checked over the merged history (interval ground truth, needless/missing re-listing, porcupine) and by the race detector. " +
			"A record is non-trivial if it has >= 5 operations and ran the listing command (seq) or >= 3 calls, >= 2 task switches and a listing (conc); distinct = distinct (operation-kind sequence, fault placement, schedule trace) hashes per configuration.",
		Assumptions: []string{
			"the stub `go` prints what `go list -f={{.ImportPath}}\\t{{.Export}}\\t{{.Deps}} -export` prints; export files are content-addressed by build identity like the Go build cache",
			"strict configurations do not move the world between a listing and the end of the operation that ran it (there the interface cannot be atomic); window configurations count, not alarm, data older than the call",
			"the baton hand-off is invisible to the race detector, but fork/exec inside os/exec and syscall.Read/Write add real happens-before edges between tasks that list",
			"sampling: a clean run is evidence for the histories reached, not a proof",
		},
		Components: realStub,
	}
	m["C15"] = propSpec{
		ID: "C15",
		Jobs: []job{
			{Label: "envs", Pkg: "./sim/engines/c15", Env: []string{"VERIF_XPROC=1"}, Workers: [2]int{14, 16}, Checks: [2]int{0, 0}, Budget: [2]int{50, 900}},
		},
		Rule: "a record fixes one operation history: a program (synthetic, type-directed, biased to several imports per file, several files, imported XGo packages with several overload families and exported signatures reaching several XGo packages; or a real standard-library package) " +
			"compiled by the minicl front end under an explicit front-end schedule (eager/on-demand declaration order, lazily loaded types, body order, file assignment) and fault plan (discarded references, aborted statements and initialisers). " +
			"The history is executed under 4-6 environments that differ only in what must not matter: native runtime map order and real sync.Pool; every unordered iteration ascending / descending / tape-permuted; printer pool always fresh / always reused / tape; heap ballast, GC, GOGC; unrelated builds first in the same process; " +
			"and batches of records are re-executed in fresh OS processes at GOMAXPROCS 1/4/16. Oracle: identical file set and identical bytes of every file. " +
			"Non-trivial: >= 20 builder operations and at least one non-identity permutation applied; distinct = distinct (program shape, schedule, fault plan, operation-history hash).",
		Assumptions: []string{
			"heap addresses cannot be controlled in Go: ballast and fresh processes only perturb them (the evidence reports how often probe allocations changed order)",
			"programs go/types rejects are never fed; programs gogen rejects are counted, not compared",
			"diagnostics (order of errors reaching HandleErr) are not part of the compared output",
			"sampling: a clean run is evidence for the histories and code paths reached, not a proof",
		},
		Components: realStub,
	}
	m["C16"] = propSpec{
		ID: "C16",
		Jobs: []job{
			{Label: "model", Pkg: "./sim/engines/c16", Workers: [2]int{14, 16}, Checks: [2]int{0, 0}, Budget: [2]int{50, 900}},
		},
		Rule: "a record is a program (synthetic with every block-forming construct nested to depth 8, or a real standard-library package) plus a front-end schedule that makes the history nested and interrupted: on-demand declarations started with operands on the stack (file switched and restored), named types completed from the LoadNamed callback, " +
			"and injected aborts (ill-typed operation inside a statement / initialiser / switch header, CallWithEx error, discarded operands) each followed by the documented recovery call. After every builder operation the executable reference model (documented arity per operation, stack of open constructs) is compared with InternalStack().Len(), " +
			"and on every close with Scope(), Func(), InVBlock(), the current file and LookupLabel. Non-trivial: >= 20 operations and nesting >= 3; distinct = distinct operation-history hash.",
		Assumptions: []string{
			"the arity table is written from the API comments and the repository's tests; nothing is asserted between an abort and its documented recovery call",
			"headers of if/for are never aborted (no documented recovery)",
			"sampling: a clean run is evidence for the histories reached, not a proof",
		},
		Components: realStub,
	}
	m["C09"] = propSpec{
		ID: "C09",
		Jobs: []job{
			{Label: "imports", Pkg: "./sim/engines/c09", Workers: [2]int{14, 16}, Checks: [2]int{0, 0}, Budget: [2]int{50, 900}},
		},
		Rule: "a record is a multi-file package (synthetic: 2-8 imports including distinct paths with equal base names and synthetic XGo packages, declared identifiers of every kind named like import base names - package-level and local variables, constants, types, functions, parameters, results, range and type-switch variables - ; or a real standard-library package) " +
			"plus a front-end schedule (order of declarations, on-demand loading from another file's body, which file is current, imports issued at file start or first use, lazily loaded types, reassignment of declarations to files) and a fault plan (references built and then discarded by Pop or ResetStmt, aborted expression statements, inline closures that allocate helper names), under a tape-driven map order. " +
			"Oracle on the written files, parsed and type-checked together with go/types: imports == used packages (+ force-imports as blank imports), import names pairwise distinct and different from every declared identifier, every package-qualified reference the front end built resolves to the package it was given, no generated helper name collides. " +
			"Non-trivial: >= 20 operations and at least one renamed import; distinct = distinct (operation-history hash, fault plan).",
		Assumptions: []string{
			"type errors other than the import/name properties (unused variables etc.) are ignored: soundness of accepted builds is C01, not claimed",
			"runs in which an aborted statement leaves an unparseable file are skipped and counted",
			"sampling: a clean run is evidence for the histories reached, not a proof",
		},
		Components: realStub,
	}
	m["C18"] = propSpec{
		ID: "C18",
		Jobs: []job{
			{Label: "race", Pkg: "./sim/engines/c18", Race: true, Workers: [2]int{8, 10}, Checks: [2]int{0, 0}, Budget: [2]int{55, 900}},
			{Label: "state", Pkg: "./sim/engines/c18", Workers: [2]int{6, 6}, Checks: [2]int{0, 0}, Budget: [2]int{55, 900}},
		},
		Rule: "a record is 2-4 packages (the same program several times, or different synthetic / standard-library programs), each with its own gogen.Package, importer, file set, front-end schedule and fault plan, built on its own goroutine under the baton scheduler: a task yields before every builder operation and at up to 4 function-entry preemption points inside gogen (PCT style); the scheduler tape decides who runs. " +
			"Oracles: the Go race detector (the baton hand-off is invisible to it, so conflicting accesses of two tasks are reported whatever the timing); per package, files and diagnostics byte-identical to the same record built alone before, and alone again after, the concurrent run; in the non-race configuration a structural fingerprint of every package-level variable (and the go/types universe) taken every 16 scheduler steps. " +
			"Non-trivial: >= 40 builder operations and >= 4 task switches; distinct = distinct (programs, schedule trace, operation histories).",
		Assumptions: []string{
			"each task has its own importer; imported types.Package objects are not shared between tasks (the property's premise)",
			"a change of a package-level table, flag or pool is counted as an observation; a change of a package-level node/object (pointer, struct, interface) is a violation",
			"debug flags are off (log's mutex would be a happens-before edge between tasks)",
			"sampling: the race detector sees the accesses that the explored programs and interleavings perform",
		},
		Components: realStub,
	}
	m["C19"] = propSpec{
		ID: "C19",
		Jobs: []job{
			{Label: "model", Pkg: "./sim/engines/c19", Workers: [2]int{8, 10}, Checks: [2]int{0, 0}, Budget: [2]int{30, 600}},
			{Label: "readers-race", Pkg: "./sim/engines/c19", Race: true, Workers: [2]int{6, 6}, Checks: [2]int{0, 0}, Budget: [2]int{30, 600}},
		},
		Rule: "a record is a history of up to 80 Set/Delete/At/Len/Keys/Iterate/String operations (plus reads of a nil map) over a universe of ~700 type objects built so that many are identical without being the same object (the same source checked twice, aliases, generic signatures with renamed type parameters, interfaces with permuted and embedded methods, unions with permuted terms, instantiations created twice) and so that a third of the keys come from families of non-identical types sharing a hash bucket (found by search over the public Hasher); " +
			"bucket iteration order is tape-driven; Iterate is interleaved with a mutator acting at callback points chosen by the record; after the sequential phase 2-4 reader tasks run At/Len/Keys/Iterate/Hash under the baton scheduler with the race detector. " +
			"Oracle: association-list reference model under types.Identical after every operation; the Go-map guarantees for iteration under mutation; the hash law on every identical pair of the universe. Non-trivial: >= 8 operations and >= 2 live entries; distinct = distinct (operation kinds, key classes, schedule).",
		Assumptions: []string{
			"the sequential container law has no environment of its own; what the simulator controls here is bucket order, iterator-vs-mutator interleaving and concurrent readers (DESIGN.md 3.5)",
			"sampling: a clean run is evidence for the histories reached, not a proof",
		},
		Components: map[string][]string{"real_code": {"typeutil.Map and Hasher of the current tree (bucket iteration behind the map-order seam)", "go/types", "real goroutines and the Go race detector"}, "stubs": {"none"}},
	}
	return m
}
