// verifcheck is the driver behind /verif/check: it rebuilds the verification build of the
// current /repo tree (overlay from simrewrite), runs the engine of one property in several
// worker processes, merges their evidence parts and prints the verdict lines.
//
//	verifcheck <property> [--tier quick|thorough] [--replay file] [--seed n] [--keep]
//
// exit 0: property held on everything explored; 1: VIOLATION printed; 2: build or harness trouble.
package main

import (
	"bufio"
	"bytes"
	"encoding/json"
	"fmt"
	"os"
	"os/exec"
	"path/filepath"
	"sort"
	"strconv"
	"strings"
	"sync"
	"time"

	"gogenverif/sim/core"
)

// verifDir is where the harness lives (the directory ./check is in): /verif, or a snapshot of it.
var verifDir = "/verif"

var repoDir = "/repo"

// job is one configuration of an engine.
type job struct {
	Label   string
	Pkg     string // engine package (test binary)
	Race    bool
	Env     []string
	Workers [2]int // quick, thorough
	Checks  [2]int // records per worker (0 = budget only)
	Budget  [2]int // seconds per worker (0 = checks only)
}

type propSpec struct {
	ID          string
	Jobs        []job
	Rule        string
	Assumptions []string
	Components  map[string][]string
	NeedStub    bool
}

func fail2(format string, a ...any) {
	fmt.Fprintf(os.Stderr, "verifcheck: "+format+"\n", a...)
	os.Exit(2)
}

func run(dir string, env []string, name string, args ...string) (string, error) {
	cmd := exec.Command(name, args...)
	cmd.Dir = dir
	cmd.Env = append(os.Environ(), env...)
	var b bytes.Buffer
	cmd.Stdout = &b
	cmd.Stderr = &b
	err := cmd.Run()
	return b.String(), err
}

var goEnv = []string{"GOFLAGS=-mod=mod", "GOPROXY=off", "GOSUMDB=off", "GOTOOLCHAIN=local"}

func main() {
	if len(os.Args) < 2 {
		fail2("usage: verifcheck <property> [--tier quick|thorough] [--replay file] [--seed n]")
	}
	if wd, err := os.Getwd(); err == nil {
		verifDir = wd
	}
	id := os.Args[1]
	if id == "selftest-determinism" {
		os.Exit(selftest())
	}
	tier := os.Getenv("VERIF_TIER")
	if tier == "" {
		tier = "quick"
	}
	seed := int64(1)
	if v := os.Getenv("VERIF_SEED"); v != "" {
		if n, err := strconv.ParseInt(v, 10, 64); err == nil {
			seed = n
		}
	}
	replay := ""
	keep := false
	for i := 2; i < len(os.Args); i++ {
		switch os.Args[i] {
		case "--tier":
			i++
			tier = os.Args[i]
		case "--replay":
			i++
			replay = os.Args[i]
		case "--seed":
			i++
			seed, _ = strconv.ParseInt(os.Args[i], 10, 64)
		case "--keep":
			keep = true
		case "--repo":
			i++
			repoDir = os.Args[i]
		default:
			fail2("unknown argument %s", os.Args[i])
		}
	}
	if tier != "quick" && tier != "thorough" {
		fail2("tier must be quick or thorough")
	}
	spec, ok := specs()[id]
	if !ok {
		fail2("no check for property %s", id)
	}
	ti := 0
	if tier == "thorough" {
		ti = 1
	}
	start := time.Now()
	scratch, err := os.MkdirTemp("", "verif-"+id+"-")
	if err != nil {
		fail2("%v", err)
	}
	if !keep {
		defer os.RemoveAll(scratch)
	}
	code := drive(spec, tier, ti, seed, replay, scratch, start)
	if !keep {
		os.RemoveAll(scratch)
	}
	os.Exit(code)
}

func build(spec propSpec, scratch string) (bins map[string]string, inventory json.RawMessage, code int) {
	bins = map[string]string{}
	// 1. overlay from the current tree
	if out, err := run(verifDir, goEnv, "go", "build", "-o", filepath.Join(scratch, "simrewrite"), "./tools/simrewrite"); err != nil {
		fmt.Fprintf(os.Stderr, "build simrewrite failed:\n%s\n", out)
		return nil, nil, 2
	}
	ov := filepath.Join(scratch, "overlay")
	os.MkdirAll(ov, 0o755)
	if out, err := run(verifDir, goEnv, filepath.Join(scratch, "simrewrite"), "-repo", repoDir, "-out", ov, "-yield"); err != nil {
		fmt.Fprintf(os.Stderr, "simrewrite failed (does %s build?):\n%s\n", repoDir, out)
		return nil, nil, 2
	}
	inventory, _ = os.ReadFile(filepath.Join(ov, "inventory.json"))
	// the module file of the harness with the replace pointing at repoDir
	modfile := filepath.Join(verifDir, "go.mod")
	if repoDir != "/repo" {
		b, _ := os.ReadFile(modfile)
		nb := strings.Replace(string(b), "=> /repo", "=> "+repoDir, 1)
		modfile = filepath.Join(scratch, "go.mod")
		os.WriteFile(modfile, []byte(nb), 0o644)
		sum, _ := os.ReadFile(filepath.Join(verifDir, "go.sum"))
		os.WriteFile(filepath.Join(scratch, "go.sum"), sum, 0o644)
	}
	// 2. engine binaries
	type bk struct {
		pkg  string
		race bool
	}
	done := map[bk]bool{}
	for _, j := range spec.Jobs {
		k := bk{j.Pkg, j.Race}
		if done[k] {
			continue
		}
		done[k] = true
		name := filepath.Base(j.Pkg)
		args := []string{"test", "-c", "-vet=off", "-modfile=" + modfile, "-overlay", filepath.Join(ov, "overlay.json")}
		if j.Race {
			args = append(args, "-race")
			name += ".race"
		}
		bin := filepath.Join(scratch, name+".test")
		args = append(args, "-o", bin, j.Pkg)
		if out, err := run(verifDir, goEnv, "go", args...); err != nil {
			fmt.Fprintf(os.Stderr, "build of engine %s failed:\n%s\n", j.Pkg, out)
			return nil, nil, 2
		}
		bins[fmt.Sprintf("%s|%v", j.Pkg, j.Race)] = bin
	}
	if spec.NeedStub {
		sb := filepath.Join(scratch, "stubbin")
		os.MkdirAll(sb, 0o755)
		if out, err := run(verifDir, nil, "gcc", "-static", "-O2", "-o", filepath.Join(sb, "go"), "sim/stubgo/stubgo.c"); err != nil {
			fmt.Fprintf(os.Stderr, "build of stub go failed:\n%s\n", out)
			return nil, nil, 2
		}
	}
	return bins, inventory, 0
}

type workerResult struct {
	job    job
	worker int
	out    string
	exit   int
	part   *core.Part
}

func drive(spec propSpec, tier string, ti int, seed int64, replay, scratch string, start time.Time) int {
	bins, inventory, code := build(spec, scratch)
	if code != 0 {
		return code
	}
	buildS := time.Since(start).Seconds()
	outDir := filepath.Join(scratch, "out")
	os.MkdirAll(outDir, 0o755)
	realGo, _ := exec.LookPath("go")
	baseEnv := append([]string{}, goEnv...)
	baseEnv = append(baseEnv,
		"VERIF_SCRATCH="+scratch,
		"VERIF_STUBBIN="+filepath.Join(scratch, "stubbin"),
		"VERIF_KNOWN="+filepath.Join(verifDir, "known_findings.json"),
		"VERIF_REPO="+repoDir,
		"VERIF_REALGO="+realGo,
		"VERIF_TIER="+tier,
		"VERIF_SEED="+strconv.FormatInt(seed, 10),
	)
	var results []*workerResult
	var mu sync.Mutex
	var wg sync.WaitGroup
	sem := make(chan struct{}, 16)
	launch := func(j job, w int, extra []string) {
		wg.Add(1)
		go func() {
			defer wg.Done()
			sem <- struct{}{}
			defer func() { <-sem }()
			wdir := filepath.Join(outDir, fmt.Sprintf("%s-%d", j.Label, w))
			os.MkdirAll(wdir, 0o755)
			env := append([]string{}, baseEnv...)
			env = append(env, j.Env...)
			env = append(env, "VERIF_OUT="+wdir, "VERIF_WORKER="+strconv.Itoa(w), "VERIF_CONFIG="+j.Label)
			env = append(env, extra...)
			if j.Race {
				rl := filepath.Join(wdir, "race")
				env = append(env, "VERIF_RACELOG="+rl, "GORACE=log_path="+rl+" halt_on_error=0 history_size=5")
			}
			bin := bins[fmt.Sprintf("%s|%v", j.Pkg, j.Race)]
			out, err := run(wdir, env, bin, "-test.run", "^TestSim$", "-test.timeout", "0", "-rapid.shrinktime", "10s", "-test.cpu", "4")
			r := &workerResult{job: j, worker: w, out: out}
			if err != nil {
				if ee, ok := err.(*exec.ExitError); ok {
					r.exit = ee.ExitCode()
				} else {
					r.exit = 2
				}
			}
			if b, err := os.ReadFile(filepath.Join(wdir, fmt.Sprintf("part-%s-%d.json", j.Label, w))); err == nil {
				var p core.Part
				if json.Unmarshal(b, &p) == nil {
					r.part = &p
				}
			}
			mu.Lock()
			results = append(results, r)
			mu.Unlock()
		}()
	}
	if replay != "" {
		// the replay file names its configuration
		b, err := os.ReadFile(replay)
		if err != nil {
			fmt.Fprintln(os.Stderr, err)
			return 2
		}
		var w struct {
			Config string `json:"config"`
		}
		json.Unmarshal(b, &w)
		var jb *job
		for i := range spec.Jobs {
			if spec.Jobs[i].Label == w.Config {
				jb = &spec.Jobs[i]
			}
		}
		if jb == nil {
			jb = &spec.Jobs[0]
		}
		abs, _ := filepath.Abs(replay)
		launch(*jb, 0, []string{"VERIF_REPLAY=" + abs})
	} else {
		for _, j := range spec.Jobs {
			for w := 0; w < j.Workers[ti]; w++ {
				launch(j, w, []string{"VERIF_CHECKS=" + strconv.Itoa(j.Checks[ti]), "VERIF_BUDGET_S=" + strconv.Itoa(j.Budget[ti])})
			}
		}
	}
	wg.Wait()
	sort.Slice(results, func(a, b int) bool {
		if results[a].job.Label != results[b].job.Label {
			return results[a].job.Label < results[b].job.Label
		}
		return results[a].worker < results[b].worker
	})

	// ---- merge
	exit := 0
	printed := map[string]bool{}
	type cfgAgg struct {
		Evaluations int            `json:"evaluations"`
		Distinct    int            `json:"distinct_nontrivial"`
		FaultFree   int            `json:"fault_free_runs"`
		Ops         int            `json:"operations"`
		Steps       int            `json:"scheduler_steps"`
		Interleav   int            `json:"distinct_interleavings"`
		Workers     int            `json:"workers"`
		WallS       float64        `json:"worker_wall_s_total"`
		Race        bool           `json:"race_detector"`
		Faults      map[string]int `json:"faults_fired"`
	}
	cfgs := map[string]*cfgAgg{}
	shapes := map[string]bool{}
	scheds := map[string]bool{}
	faults := map[string]int{}
	probes := map[string]int{}
	observations := map[string]int{}
	inconclusive := map[string]int{}
	known := map[string]int{}
	var samples []any
	var viols []map[string]any
	evals, shrinkExecs, ops, steps, det, faultFree := 0, 0, 0, 0, 0, 0
	var extra map[string]any
	harnessTrouble := ""
	for _, r := range results {
		sc := bufio.NewScanner(strings.NewReader(r.out))
		sc.Buffer(make([]byte, 1<<20), 1<<24)
		for sc.Scan() {
			l := sc.Text()
			if strings.HasPrefix(l, "KNOWN-FINDING:") {
				if !printed[l] {
					printed[l] = true
					fmt.Println(l)
				}
			}
			if strings.HasPrefix(l, "REPLAY-OK") || strings.HasPrefix(l, "HARNESS-NONDETERMINISM") {
				fmt.Println(l)
			}
		}
		if r.part == nil {
			harnessTrouble = fmt.Sprintf("worker %s/%d wrote no evidence part (exit %d); output tail:\n%s", r.job.Label, r.worker, r.exit, tail(r.out, 40))
			continue
		}
		p := r.part
		if p.HarnessErr != "" {
			harnessTrouble = fmt.Sprintf("worker %s/%d: %s", r.job.Label, r.worker, p.HarnessErr)
		}
		if r.exit != 0 && r.exit != 1 && p.HarnessErr == "" && len(p.Violations) == 0 {
			harnessTrouble = fmt.Sprintf("worker %s/%d exited %d; output tail:\n%s", r.job.Label, r.worker, r.exit, tail(r.out, 40))
		}
		c := cfgs[r.job.Label]
		if c == nil {
			c = &cfgAgg{Faults: map[string]int{}, Race: r.job.Race}
			cfgs[r.job.Label] = c
		}
		c.Workers++
		c.Evaluations += p.Evaluations
		c.FaultFree += p.FaultFree
		c.Ops += p.Ops
		c.Steps += p.Steps
		c.WallS += p.WallS
		c.Distinct += len(p.Shapes)
		c.Interleav += len(p.Scheds)
		evals += p.Evaluations
		shrinkExecs += p.ShrinkExecs
		ops += p.Ops
		steps += p.Steps
		det += p.DetChecks
		faultFree += p.FaultFree
		for k := range p.Shapes {
			shapes[r.job.Label+"/"+k] = true
		}
		for k := range p.Scheds {
			scheds[k] = true
		}
		for k, n := range p.Faults {
			faults[k] += n
			c.Faults[k] += n
		}
		for k, n := range p.Probes {
			probes[k] += n
		}
		for k, n := range p.Observations {
			observations[k] += n
		}
		for k, n := range p.Inconclusive {
			inconclusive[k] += n
		}
		for k, n := range p.Known {
			known[k] += n
		}
		if len(samples) < 4 && len(p.Samples) > 0 {
			samples = append(samples, map[string]any{"config": r.job.Label, "record": p.Samples[0]})
		}
		if p.Extra != nil && extra == nil {
			extra = p.Extra
		}
		for _, v := range p.Violations {
			dst := v.Replay
			if replay == "" {
				os.MkdirAll(filepath.Join(verifDir, "replays"), 0o755)
				dst = filepath.Join(verifDir, "replays", filepath.Base(v.Replay))
				if b, err := os.ReadFile(v.Replay); err == nil {
					os.WriteFile(dst, b, 0o644)
				}
			}
			fmt.Printf("VIOLATION property=%s replay=%s\n  config=%s key=%s\n  %s\n", spec.ID, dst, r.job.Label, v.Key, strings.ReplaceAll(v.Detail, "\n", "\n  "))
			viols = append(viols, map[string]any{"key": v.Key, "detail": v.Detail, "replay": dst, "config": r.job.Label})
			exit = 1
		}
	}
	if replay != "" {
		if harnessTrouble != "" {
			fmt.Fprintln(os.Stderr, harnessTrouble)
			return 2
		}
		return exit
	}
	wall := time.Since(start).Seconds()
	if len(samples) == 0 {
		samples = append(samples, "no non-trivial sample was produced")
	}
	cov := map[string]any{
		"evaluations":                    evals,
		"distinct_nontrivial":            len(shapes),
		"rule":                           spec.Rule,
		"samples":                        samples,
		"shrink_and_minimise_executions": shrinkExecs,
		"operations_executed":            ops,
		"scheduler_steps":                steps,
		"simulated_time":                 "none: no component of gogen reads a clock; progress is counted in scheduler steps and operations",
		"runs_per_hour":                  int(float64(evals) / wall * 3600),
		"seeds":                          fmt.Sprintf("VERIF_SEED=%d; every worker derives its rapid seeds from (seed, worker, batch)", seed),
		"fault_free_runs":                faultFree,
		"faults_fired":                   faults,
		"probes":                         probes,
		"distinct_interleavings":         len(scheds),
		"observations_out_of_scope":      observations,
		"inconclusive":                   inconclusive,
		"known_findings_hit":             known,
		"determinism_double_executions":  det,
		"configurations":                 cfgs,
		"components":                     spec.Components,
		"build_s":                        buildS,
	}
	if extra != nil {
		cov["engine"] = extra
	}
	if inventory != nil {
		var inv any
		json.Unmarshal(inventory, &inv)
		cov["nondeterminism_inventory"] = inv
	}
	zero := []string{}
	for k, n := range probes {
		if n == 0 {
			zero = append(zero, k)
		}
	}
	sort.Strings(zero)
	cov["probes_at_zero"] = zero
	ev := map[string]any{
		"property_id": spec.ID,
		"tier":        tier,
		"seed":        seed,
		"level":       "exploration",
		"coverage":    cov,
		"assumptions": spec.Assumptions,
		"wall_s":      wall,
		"violations":  len(viols),
	}
	if len(viols) > 0 {
		ev["violation_list"] = viols
	}
	if harnessTrouble != "" {
		ev["harness_trouble"] = harnessTrouble
	}
	b, _ := json.MarshalIndent(ev, "", " ")
	// evidence describes /repo itself; a run against another checkout (--repo: a scratch
	// worktree with a seeded change) writes its report next to it, never over it
	evDir := "evidence"
	if repoDir != "/repo" {
		evDir = "evidence-other"
	}
	os.MkdirAll(filepath.Join(verifDir, evDir), 0o755)
	if err := os.WriteFile(filepath.Join(verifDir, evDir, spec.ID+".json"), b, 0o644); err != nil {
		fmt.Fprintln(os.Stderr, "cannot write evidence:", err)
		return 2
	}
	fmt.Printf("%s %s: %d records executed (%d distinct non-trivial), %d violation(s), %d known-finding hit(s), %.0fs\n",
		spec.ID, tier, evals, len(shapes), len(viols), sumInts(known), wall)
	if harnessTrouble != "" {
		fmt.Fprintln(os.Stderr, "HARNESS TROUBLE:", harnessTrouble)
		if exit == 0 {
			return 2
		}
	}
	if exit == 0 && evals == 0 {
		fmt.Fprintln(os.Stderr, "no record was executed")
		return 2
	}
	return exit
}

func sumInts(m map[string]int) int {
	n := 0
	for _, v := range m {
		n += v
	}
	return n
}

func tail(s string, n int) string {
	lines := strings.Split(strings.TrimRight(s, "\n"), "\n")
	if len(lines) > n {
		lines = lines[len(lines)-n:]
	}
	return strings.Join(lines, "\n")
}

// selftest: for every engine configuration, the same seed is executed in several fresh
// processes at GOMAXPROCS 1, 4 and 16; the fold of all (history, observation) hashes must
// be identical. Run after every change to a seam, fault kind or generator.
func selftest() int {
	start := time.Now()
	all := specs()
	var ids []string
	for id := range all {
		ids = append(ids, id)
	}
	sort.Strings(ids)
	type row struct {
		Property, Config string
		Race             bool
		Digests          []string
		Records          []int
		OK               bool
	}
	var rows []row
	bad := 0
	for _, id := range ids {
		spec := all[id]
		scratch, err := os.MkdirTemp("", "verif-selftest-"+id+"-")
		if err != nil {
			return 2
		}
		bins, _, code := build(spec, scratch)
		if code != 0 {
			os.RemoveAll(scratch)
			return 2
		}
		realGo, _ := exec.LookPath("go")
		for _, j := range spec.Jobs {
			r := row{Property: id, Config: j.Label, Race: j.Race, OK: true}
			type res struct {
				d string
				n int
			}
			out := make([]res, 6)
			var wg sync.WaitGroup
			for k := 0; k < 6; k++ {
				wg.Add(1)
				go func(k int) {
					defer wg.Done()
					wdir := filepath.Join(scratch, fmt.Sprintf("st-%s-%d", j.Label, k))
					os.MkdirAll(wdir, 0o755)
					env := append([]string{}, goEnv...)
					env = append(env, j.Env...)
					env = append(env, "VERIF_SCRATCH="+scratch, "VERIF_STUBBIN="+filepath.Join(scratch, "stubbin"), "VERIF_REPO="+repoDir, "VERIF_REALGO="+realGo,
						"VERIF_SEED=7", "VERIF_OUT="+wdir, "VERIF_WORKER=0", "VERIF_CONFIG="+j.Label, "VERIF_CHECKS=60", "VERIF_BUDGET_S=0", "VERIF_XPROC=",
						"VERIF_KNOWN="+filepath.Join(verifDir, "known_findings.json"))
					if j.Race {
						env = append(env, "VERIF_RACELOG="+filepath.Join(wdir, "race"), "GORACE=log_path="+filepath.Join(wdir, "race")+" halt_on_error=0")
					}
					cpu := []string{"1", "4", "16"}[k%3]
					run(wdir, env, bins[fmt.Sprintf("%s|%v", j.Pkg, j.Race)], "-test.run", "^TestSim$", "-test.timeout", "0", "-test.cpu", cpu)
					if b, err := os.ReadFile(filepath.Join(wdir, fmt.Sprintf("part-%s-0.json", j.Label))); err == nil {
						var p core.Part
						if json.Unmarshal(b, &p) == nil {
							out[k] = res{p.Digest, p.Evaluations}
						}
					}
				}(k)
			}
			wg.Wait()
			for _, o := range out {
				r.Digests = append(r.Digests, o.d)
				r.Records = append(r.Records, o.n)
				if o.d == "" || o.d != out[0].d || o.n != out[0].n {
					r.OK = false
				}
			}
			if !r.OK {
				bad++
			}
			fmt.Printf("selftest %s/%s: ok=%v records=%v digests=%v\n", id, j.Label, r.OK, r.Records, r.Digests)
			rows = append(rows, r)
		}
		os.RemoveAll(scratch)
	}
	b, _ := json.MarshalIndent(map[string]any{"what": "same seed, 6 fresh processes per configuration at GOMAXPROCS 1/4/16: fold of history and observation hashes of all records", "rows": rows, "wall_s": time.Since(start).Seconds()}, "", " ")
	os.MkdirAll(filepath.Join(verifDir, "evidence"), 0o755)
	os.WriteFile(filepath.Join(verifDir, "evidence", "selftest-determinism.json"), b, 0o644)
	if bad > 0 {
		return 2
	}
	return 0
}
