// simrewrite scans the current goplus/gogen tree for sources of nondeterminism and writes
// a `go build -overlay` description that puts every one of them behind a seam of the
// injected package github.com/goplus/gogen/verifhook. /repo itself is never modified.
//
//	simrewrite -repo /repo -out <scratch> [-yield]
//
// Output: <scratch>/overlay.json, <scratch>/inventory.json and the rewritten files.
package main

import (
	_ "embed"
	"encoding/json"
	"flag"
	"fmt"
	"go/ast"
	"go/token"
	"go/types"
	"os"
	"path/filepath"
	"sort"
	"strconv"
	"strings"

	"golang.org/x/tools/go/packages"
)

//go:embed hooksrc/hook.go.txt
var hookSrc []byte

//go:embed hooksrc/desc.go.txt
var descSrc []byte

//go:embed hooksrc/race.go.txt
var raceSrc []byte

//go:embed hooksrc/norace.go.txt
var noraceSrc []byte

const modPath = "github.com/goplus/gogen"
const hookPath = modPath + "/verifhook"

type edit struct {
	off, end int // replace [off,end) with text
	text     string
}

type Site struct {
	Site       string `json:"site"`
	Kind       string `json:"kind"`
	Detail     string `json:"detail,omitempty"`
	Controlled bool   `json:"controlled"`
}

type Inventory struct {
	Packages     []string       `json:"packages"`
	Sites        []Site         `json:"sites"`
	Uncontrolled []Site         `json:"uncontrolled_sources"`
	Globals      map[string]int `json:"globals_per_package"`
	Funcs        int            `json:"yield_points"`
	Yield        bool           `json:"yield_instrumented"`
}

func fatalf(f string, a ...any) {
	fmt.Fprintf(os.Stderr, "simrewrite: "+f+"\n", a...)
	os.Exit(2)
}

func main() {
	repo := flag.String("repo", "/repo", "gogen tree")
	out := flag.String("out", "", "scratch directory")
	yield := flag.Bool("yield", false, "insert function-entry yields")
	flag.Parse()
	if *out == "" {
		fatalf("-out required")
	}
	cfg := &packages.Config{
		Mode: packages.NeedName | packages.NeedFiles | packages.NeedCompiledGoFiles | packages.NeedSyntax |
			packages.NeedTypes | packages.NeedTypesInfo | packages.NeedImports | packages.NeedDeps,
		Dir: *repo,
	}
	roots, err := packages.Load(cfg, modPath, modPath+"/packages/...", modPath+"/typeutil")
	if err != nil {
		fatalf("load: %v", err)
	}
	seen := map[string]*packages.Package{}
	var walk func(p *packages.Package)
	walk = func(p *packages.Package) {
		if seen[p.PkgPath] != nil || !(p.PkgPath == modPath || strings.HasPrefix(p.PkgPath, modPath+"/")) {
			return
		}
		seen[p.PkgPath] = p
		for _, q := range p.Imports {
			walk(q)
		}
	}
	for _, p := range roots {
		if len(p.Errors) > 0 {
			fatalf("package %s: %v", p.PkgPath, p.Errors[0])
		}
		walk(p)
	}
	var paths []string
	for k := range seen {
		paths = append(paths, k)
	}
	sort.Strings(paths)

	inv := &Inventory{Globals: map[string]int{}, Yield: *yield}
	overlay := map[string]string{}
	funcBase := 0
	for _, path := range paths {
		p := seen[path]
		inv.Packages = append(inv.Packages, path)
		rw := &rewriter{pkg: p, inv: inv, repo: *repo, yield: *yield, funcBase: funcBase}
		rw.run(*out, overlay)
		funcBase = rw.funcBase
	}
	inv.Funcs = funcBase
	// the injected hook package
	hdir := filepath.Join(*out, "verifhook")
	os.MkdirAll(hdir, 0o755)
	for name, src := range map[string][]byte{"hook.go": hookSrc, "desc.go": descSrc, "race.go": raceSrc, "norace.go": noraceSrc} {
		dst := filepath.Join(hdir, name)
		if err := os.WriteFile(dst, src, 0o644); err != nil {
			fatalf("%v", err)
		}
		overlay[filepath.Join(*repo, "verifhook", name)] = dst
	}
	ob, _ := json.MarshalIndent(map[string]any{"Replace": overlay}, "", " ")
	if err := os.WriteFile(filepath.Join(*out, "overlay.json"), ob, 0o644); err != nil {
		fatalf("%v", err)
	}
	sort.Slice(inv.Sites, func(i, j int) bool { return inv.Sites[i].Site < inv.Sites[j].Site })
	ib, _ := json.MarshalIndent(inv, "", " ")
	os.WriteFile(filepath.Join(*out, "inventory.json"), ib, 0o644)
}

type rewriter struct {
	pkg      *packages.Package
	inv      *Inventory
	repo     string
	yield    bool
	funcBase int
	counter  int
}

func (rw *rewriter) rel(pos token.Pos) string {
	p := rw.pkg.Fset.Position(pos)
	r, err := filepath.Rel(rw.repo, p.Filename)
	if err != nil {
		r = p.Filename
	}
	return r + ":" + strconv.Itoa(p.Line)
}

func (rw *rewriter) run(out string, overlay map[string]string) {
	p := rw.pkg
	var globNames []string
	var funcNames []string
	pkgDir := ""
	for i, f := range p.Syntax {
		fname := p.CompiledGoFiles[i]
		if pkgDir == "" {
			pkgDir = filepath.Dir(fname)
		}
		src, err := os.ReadFile(fname)
		if err != nil {
			fatalf("%v", err)
		}
		tf := p.Fset.File(f.Pos())
		off := func(pos token.Pos) int { return tf.Offset(pos) }
		var edits []edit
		needHook := false
		poolEdit := false
		text := func(n ast.Node) string { return string(src[off(n.Pos()):off(n.End())]) }

		// package-level variables
		for _, d := range f.Decls {
			gd, ok := d.(*ast.GenDecl)
			if !ok || gd.Tok != token.VAR {
				continue
			}
			for _, s := range gd.Specs {
				for _, n := range s.(*ast.ValueSpec).Names {
					if n.Name != "_" {
						globNames = append(globNames, n.Name)
					}
				}
			}
		}

		ast.Inspect(f, func(n ast.Node) bool {
			switch n := n.(type) {
			case *ast.FuncDecl:
				if rw.yield && n.Body != nil && n.Name.Name != "init" {
					name := n.Name.Name
					if n.Recv != nil && len(n.Recv.List) > 0 {
						name = strings.TrimPrefix(types.ExprString(n.Recv.List[0].Type), "*") + "." + name
					}
					id := rw.funcBase + len(funcNames)
					funcNames = append(funcNames, p.PkgPath+"."+name)
					edits = append(edits, edit{off(n.Body.Lbrace) + 1, off(n.Body.Lbrace) + 1, fmt.Sprintf(" verifhook.Yield(%d);", id)})
					needHook = true
				}
			case *ast.GoStmt:
				rw.inv.Uncontrolled = append(rw.inv.Uncontrolled, Site{rw.rel(n.Pos()), "goroutine", "go statement", false})
			case *ast.SelectStmt:
				rw.inv.Uncontrolled = append(rw.inv.Uncontrolled, Site{rw.rel(n.Pos()), "select", "select statement", false})
			case *ast.RangeStmt:
				t := p.TypesInfo.TypeOf(n.X)
				if t == nil {
					return true
				}
				mt, ok := t.Underlying().(*types.Map)
				if !ok {
					// pointer to map is not rangeable; type params over maps: report
					if tp, ok := t.(*types.TypeParam); ok {
						_ = tp
						rw.inv.Uncontrolled = append(rw.inv.Uncontrolled, Site{rw.rel(n.Pos()), "map_range", "range over type parameter", false})
					}
					return true
				}
				site := rw.rel(n.Pos())
				s := Site{site, "map_range", types.TypeString(mt, nil), false}
				if e, ok := rw.mapRange(n, mt, site, text, off); ok {
					edits = append(edits, e)
					needHook = true
					s.Controlled = true
					rw.inv.Sites = append(rw.inv.Sites, s)
				} else {
					rw.inv.Sites = append(rw.inv.Sites, s)
					rw.inv.Uncontrolled = append(rw.inv.Uncontrolled, s)
				}
			case *ast.CallExpr:
				sel, ok := n.Fun.(*ast.SelectorExpr)
				if !ok {
					return true
				}
				// (*sync.Map).Range
				if sel.Sel.Name == "Range" && len(n.Args) == 1 {
					if s, ok := p.TypesInfo.Selections[sel]; ok && isNamed(s.Recv(), "sync", "Map") {
						site := rw.rel(n.Pos())
						recv := text(sel.X)
						if _, isPtr := s.Recv().(*types.Pointer); !isPtr {
							recv = "&" + recv
						}
						edits = append(edits, edit{off(n.Pos()), off(n.End()),
							fmt.Sprintf("verifhook.SyncRange(%s, %s, %q, verifhook.DescAny)", recv, text(n.Args[0]), site)})
						needHook = true
						rw.inv.Sites = append(rw.inv.Sites, Site{site, "sync_map_range", "", true})
						return true
					}
				}
				if obj, ok := p.TypesInfo.Uses[sel.Sel].(*types.Func); ok && obj.Pkg() != nil {
					full := obj.Pkg().Path() + "." + obj.Name()
					if _, isSel := p.TypesInfo.Selections[sel]; isSel {
						full = "" // method
						if fn := obj.FullName(); strings.HasPrefix(fn, "(*os/exec.Cmd)") {
							_ = fn
						}
					}
					switch full {
					case "time.Now", "time.Since":
						edits = append(edits, edit{off(sel.Pos()), off(sel.End()), "verifhook." + obj.Name()})
						needHook = true
						rw.inv.Sites = append(rw.inv.Sites, Site{rw.rel(n.Pos()), "clock", full, true})
					case "os.Getpid":
						edits = append(edits, edit{off(sel.Pos()), off(sel.End()), "verifhook.Getpid"})
						needHook = true
						rw.inv.Sites = append(rw.inv.Sites, Site{rw.rel(n.Pos()), "identity", full, true})
					case "os/exec.Command", "os/exec.CommandContext":
						rw.inv.Sites = append(rw.inv.Sites, Site{rw.rel(n.Pos()), "subprocess", full + " (resolved through PATH: stub executable)", true})
					case "os.Open", "os.Create", "os.Remove", "os.ReadFile", "os.WriteFile", "os.OpenFile", "os.Rename", "os.Stat":
						rw.inv.Sites = append(rw.inv.Sites, Site{rw.rel(n.Pos()), "file", full + " (scratch directory)", true})
					case "os.Getenv", "os.Hostname", "os.Getwd", "os.Environ", "os.LookupEnv", "time.Sleep", "time.After", "time.NewTimer", "time.Tick", "os.Getppid":
						rw.inv.Uncontrolled = append(rw.inv.Uncontrolled, Site{rw.rel(n.Pos()), "environment", full, false})
					default:
						if strings.HasPrefix(full, "math/rand.") || strings.HasPrefix(full, "math/rand/v2.") || strings.HasPrefix(full, "crypto/rand.") {
							rw.inv.Uncontrolled = append(rw.inv.Uncontrolled, Site{rw.rel(n.Pos()), "random", full, false})
						}
					}
				}
			case *ast.SelectorExpr:
				// value uses of os.ReadFile / os.WriteFile (function values)
				if obj, ok := p.TypesInfo.Uses[n.Sel].(*types.Func); ok && obj.Pkg() != nil && obj.Pkg().Path() == "os" {
					if obj.Name() == "ReadFile" || obj.Name() == "WriteFile" {
						rw.inv.Sites = append(rw.inv.Sites, Site{rw.rel(n.Pos()), "file", "os." + obj.Name() + " (function value; setter generated)", true})
					}
				}
				// sync.Pool type mention
				if tn, ok := p.TypesInfo.Uses[n.Sel].(*types.TypeName); ok && tn.Pkg() != nil && tn.Pkg().Path() == "sync" && tn.Name() == "Pool" {
					site := rw.rel(n.Pos())
					edits = append(edits, edit{off(n.Pos()), off(n.End()), "verifhook.Pool"})
					needHook = true
					poolEdit = true
					rw.inv.Sites = append(rw.inv.Sites, Site{site, "sync_pool", "", true})
				}
				// sync.Mutex / sync.RWMutex type mention: a blocked task must hand the baton on
				if tn, ok := p.TypesInfo.Uses[n.Sel].(*types.TypeName); ok && tn.Pkg() != nil && tn.Pkg().Path() == "sync" && (tn.Name() == "Mutex" || tn.Name() == "RWMutex") {
					edits = append(edits, edit{off(n.Pos()), off(n.End()), "verifhook." + tn.Name()})
					needHook = true
					poolEdit = true
					rw.inv.Sites = append(rw.inv.Sites, Site{rw.rel(n.Pos()), "lock", "sync." + tn.Name() + " (waiting yields to the scheduler)", true})
				}
			case *ast.BasicLit:
				if n.Kind == token.STRING && strings.Contains(n.Value, "%p") {
					rw.inv.Uncontrolled = append(rw.inv.Uncontrolled, Site{rw.rel(n.Pos()), "address", "%p formatting", false})
				}
			}
			return true
		})
		if len(edits) == 0 {
			continue
		}
		sort.Slice(edits, func(i, j int) bool { return edits[i].off < edits[j].off })
		var b strings.Builder
		last := 0
		for _, e := range edits {
			if e.off < last {
				fatalf("overlapping edits in %s", fname)
			}
			b.Write(src[last:e.off])
			b.WriteString(e.text)
			last = e.end
		}
		b.Write(src[last:])
		res := b.String()
		if needHook {
			// add the import right after the package clause (a second import decl is legal);
			// keep it on the same line so that line numbers do not move.
			pe := off(f.Name.End())
			res = res[:pe] + "; import verifhook \"" + hookPath + "\"" + res[pe:]
			if poolEdit {
				res += "\nvar _ sync.Locker\n"
			}
		}
		rel, _ := filepath.Rel(rw.repo, fname)
		dst := filepath.Join(out, "src", rel)
		os.MkdirAll(filepath.Dir(dst), 0o755)
		if err := os.WriteFile(dst, []byte(res), 0o644); err != nil {
			fatalf("%v", err)
		}
		overlay[fname] = dst
	}
	if pkgDir == "" {
		return
	}
	// generated registry file
	sort.Strings(globNames)
	var g strings.Builder
	extraImp := ""
	if p.PkgPath == modPath+"/packages/cache" {
		extraImp = "import \"os\"\n"
	}
	fmt.Fprintf(&g, "// Code generated by simrewrite. DO NOT EDIT.\n\npackage %s\n\nimport verifhook %q\n%s\nfunc init() {\n", p.Name, hookPath, extraImp)
	fmt.Fprintf(&g, "\tverifhook.RegisterGlobals(%q, []string{", p.PkgPath)
	for _, n := range globNames {
		fmt.Fprintf(&g, "%q, ", n)
	}
	g.WriteString("}, []any{")
	for _, n := range globNames {
		fmt.Fprintf(&g, "&%s, ", n)
	}
	g.WriteString("})\n")
	if len(funcNames) > 0 {
		fmt.Fprintf(&g, "\tverifhook.RegisterFuncs(%d, []string{", rw.funcBase)
		for _, n := range funcNames {
			fmt.Fprintf(&g, "%q, ", n)
		}
		g.WriteString("})\n")
	}
	g.WriteString("}\n")
	if p.PkgPath == modPath+"/packages/cache" {
		g.WriteString(cacheAccessors)
	}
	rw.inv.Globals[p.PkgPath] = len(globNames)
	rw.funcBase += len(funcNames)
	rel, _ := filepath.Rel(rw.repo, pkgDir)
	dst := filepath.Join(out, "src", rel, "verif_hooks_gen.go")
	os.MkdirAll(filepath.Dir(dst), 0o755)
	if err := os.WriteFile(dst, []byte(g.String()), 0o644); err != nil {
		fatalf("%v", err)
	}
	overlay[filepath.Join(pkgDir, "verif_hooks_gen.go")] = dst
}

func isNamed(t types.Type, pkg, name string) bool {
	if p, ok := t.(*types.Pointer); ok {
		t = p.Elem()
	}
	n, ok := t.(*types.Named)
	return ok && n.Obj().Pkg() != nil && n.Obj().Pkg().Path() == pkg && n.Obj().Name() == name
}

func pureExpr(e ast.Expr) bool {
	switch e := e.(type) {
	case *ast.Ident:
		return true
	case *ast.SelectorExpr:
		return pureExpr(e.X)
	case *ast.ParenExpr:
		return pureExpr(e.X)
	case *ast.StarExpr:
		return pureExpr(e.X)
	}
	return false
}

// descClosure returns the source of a func(K) string describing a key without addresses.
func (rw *rewriter) descClosure(kt types.Type) string {
	q := func(p *types.Package) string {
		if p == rw.pkg.Types {
			return ""
		}
		return p.Name()
	}
	return "func(k " + types.TypeString(kt, q) + ") string { return " + rw.descExpr(kt, "k") + " }"
}

func (rw *rewriter) descExpr(t types.Type, e string) string {
	if st, ok := t.Underlying().(*types.Struct); ok {
		// only structs whose fields we can reach from this package
		reach := true
		for i := 0; i < st.NumFields(); i++ {
			f := st.Field(i)
			if !f.Exported() && f.Pkg() != rw.pkg.Types {
				reach = false
			}
		}
		if reach && st.NumFields() > 0 {
			var parts []string
			for i := 0; i < st.NumFields(); i++ {
				parts = append(parts, rw.descExpr(st.Field(i).Type(), e+"."+st.Field(i).Name()))
			}
			return strings.Join(parts, ` + "\x00" + `)
		}
	}
	return "verifhook.DescAny(" + e + ")"
}

func (rw *rewriter) mapRange(n *ast.RangeStmt, mt *types.Map, site string, text func(ast.Node) string, off func(token.Pos) int) (edit, bool) {
	if !pureExpr(n.X) {
		return edit{}, false
	}
	if n.Tok != token.DEFINE && (n.Key != nil || n.Value != nil) {
		return edit{}, false
	}
	rw.counter++
	kv := fmt.Sprintf("verifK%d", rw.counter)
	okv := fmt.Sprintf("verifOk%d", rw.counter)
	m := text(n.X)
	key, val := "_", "_"
	if id, ok := n.Key.(*ast.Ident); ok && n.Key != nil {
		key = id.Name
	} else if n.Key != nil {
		return edit{}, false
	}
	if id, ok := n.Value.(*ast.Ident); ok && n.Value != nil {
		val = id.Name
	} else if n.Value != nil {
		return edit{}, false
	}
	var b strings.Builder
	fmt.Fprintf(&b, "for _, %s := range verifhook.Keys(%s, %q, %s) { ", kv, m, site, rw.descClosure(mt.Key()))
	fmt.Fprintf(&b, "%s, %s := %s[%s]; if !%s { continue }; ", val, okv, m, kv, okv)
	if key != "_" {
		fmt.Fprintf(&b, "%s := %s; ", key, kv)
	}
	// replace from 'for' up to and including the '{' of the body
	return edit{off(n.For), off(n.Body.Lbrace) + 1, b.String()}, true
}

const cacheAccessors = `
// VerifDump returns every cache entry in a canonical textual form (sorted).
func VerifDump(p *Impl) []string {
	var out []string
	p.cache.Range(func(k, v any) bool {
		pkg := v.(*pkgCache)
		s := k.(string) + "\t" + pkg.expfile + "\t" + pkg.hash
		for _, d := range pkg.deps {
			s += "\t" + d.path + "=" + d.hash
		}
		out = append(out, s)
		return true
	})
	for i := 1; i < len(out); i++ {
		for j := i; j > 0 && out[j] < out[j-1]; j-- {
			out[j], out[j-1] = out[j-1], out[j]
		}
	}
	return out
}

// VerifSetIO replaces the file primitives used by Load and Save (nil = keep).
func VerifSetIO(r func(string) ([]byte, error), w func(string, []byte, os.FileMode) error) (restore func()) {
	or, ow := readFile, writeFile
	if r != nil {
		readFile = r
	}
	if w != nil {
		writeFile = w
	}
	return func() { readFile, writeFile = or, ow }
}
`
