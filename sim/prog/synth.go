// Package prog produces the programs the simulated front end compiles: a type-directed
// synthetic generator (this file), real Go files from GOROOT (corpus.go) and synthetic
// imported XGo packages (xgo.go).
package prog

import (
	"fmt"
	"regexp"
	"sort"
	"strconv"
	"strings"
)

var impUse = regexp.MustCompile(`\bp(\d+)\.`)

// Chooser is the only source of choices of the generator (rapid in practice). Smaller
// answers give smaller programs, so shrinking works.
type Chooser interface {
	Int(n int) int // uniform-ish in [0,n)
}

func chance(c Chooser, num, den int) bool { return c.Int(den) < num }

// Program is one package given as source text plus the synthetic packages it imports.
type Program struct {
	PkgPath string    `json:"pkg_path"`
	PkgName string    `json:"pkg_name"`
	Files   []SrcFile `json:"files"`
	XGo     []XGoPkg  `json:"xgo,omitempty"` // synthetic imported packages (by parameters)
	Corpus  string    `json:"corpus,omitempty"`
	// ForceImports are import paths to force-import (blank import) into the first file.
	ForceImports []string `json:"force_imports,omitempty"`
}

type SrcFile struct {
	Name string `json:"name"`
	Text string `json:"text"`
}

type impSpec struct {
	path, base string
	xgo        int // index into Program.XGo + 1, 0 = std
}

var stdImports = []impSpec{
	{"fmt", "fmt", 0}, {"strings", "strings", 0}, {"strconv", "strconv", 0}, {"errors", "errors", 0},
	{"os", "os", 0}, {"sort", "sort", 0}, {"math", "math", 0}, {"math/rand", "rand", 0}, {"crypto/rand", "rand", 0},
	{"bytes", "bytes", 0}, {"text/template", "template", 0}, {"html/template", "template", 0},
	{"path", "path", 0}, {"path/filepath", "filepath", 0}, {"unicode/utf8", "utf8", 0}, {"math/big", "big", 0},
}

type gvar struct {
	name string
	typ  string
}

type gen struct {
	c       Chooser
	p       *Program
	imps    []impSpec // imports available to this package
	used    map[int]bool
	names   map[string]bool // package-level names taken
	pool    []string        // names that collide with import base names
	structs []string        // declared struct type names (fields A int; B string; C []int)
	ifaces  []string        // declared interface names (method M(int) string)
	funcs   []gfunc
	globals []gvar
	scopes  [][]gvar
	labelN  int
	nameN   int
	depth   int
	budget  int
	inLoop  int
	results []string
	xgo     []XGoPkg
	helper  string // func(int, func(int) int) int declared by the program
	hdr     bool   // generating the header of if/for/switch: no composite literals of named struct types
}

type gfunc struct {
	name    string
	params  []string // types
	results []string
}

func (g *gen) imp(i int) string {
	g.used[i] = true
	return fmt.Sprintf("p%d", i)
}

func (g *gen) impByPath(path string) (string, bool) {
	for i, s := range g.imps {
		if s.path == path {
			return g.imp(i), true
		}
	}
	return "", false
}

// fresh returns a new identifier; with some probability one that equals an import base name.
func (g *gen) inInner(n string) bool {
	for i := len(g.scopes) - 1; i >= 0 && i >= len(g.scopes)-2; i-- {
		for _, v := range g.scopes[i] {
			if v.name == n {
				return true
			}
		}
	}
	return false
}

func (g *gen) fresh(pkgLevel bool) string {
	if len(g.pool) > 0 && chance(g.c, 1, 3) {
		n := g.pool[g.c.Int(len(g.pool))]
		if (!pkgLevel && !g.inInner(n)) || (pkgLevel && !g.names[n]) {
			if pkgLevel {
				g.names[n] = true
			}
			return n
		}
	}
	for {
		g.nameN++
		n := fmt.Sprintf("v%d", g.nameN)
		if !g.names[n] {
			if pkgLevel {
				g.names[n] = true
			}
			return n
		}
	}
}

func (g *gen) push() { g.scopes = append(g.scopes, nil) }
func (g *gen) pop()  { g.scopes = g.scopes[:len(g.scopes)-1] }
func (g *gen) declare(n, t string) {
	g.scopes[len(g.scopes)-1] = append(g.scopes[len(g.scopes)-1], gvar{n, t})
}

// visible returns the variables of type t that a name lookup reaches (innermost wins).
func (g *gen) visible(t string) []string {
	seen := map[string]bool{}
	var out []string
	for i := len(g.scopes) - 1; i >= 0; i-- {
		for j := len(g.scopes[i]) - 1; j >= 0; j-- {
			v := g.scopes[i][j]
			if seen[v.name] {
				continue
			}
			seen[v.name] = true
			if v.typ == t {
				out = append(out, v.name)
			}
		}
	}
	for _, v := range g.globals {
		if !seen[v.name] {
			seen[v.name] = true
			if v.typ == t {
				out = append(out, v.name)
			}
		}
	}
	return out
}

// shadowed reports whether a package-level name is hidden by a local.
func (g *gen) shadowed(name string) bool {
	for _, s := range g.scopes {
		for _, v := range s {
			if v.name == name {
				return true
			}
		}
	}
	return false
}

var scalarTypes = []string{"int", "string", "bool", "float64", "error"}

// importedTypes lists types of imported packages usable in declarations (the source
// names them through the file's import alias).
func (g *gen) importedTypes() []string {
	var ts []string
	for i, s := range g.imps {
		a := fmt.Sprintf("p%d", i)
		switch {
		case s.xgo > 0:
			ts = append(ts, "*"+a+".Thing", a+".Thing")
		case s.path == "strings":
			ts = append(ts, "*"+a+".Builder")
		case s.path == "bytes":
			ts = append(ts, a+".Buffer", "*"+a+".Buffer")
		case s.path == "math/big":
			ts = append(ts, "*"+a+".Int")
		case s.path == "text/template" || s.path == "html/template":
			ts = append(ts, "*"+a+".Template")
		case s.path == "os":
			ts = append(ts, "*"+a+".File")
		}
	}
	return ts
}

func isImportedType(t string) bool {
	t = strings.TrimPrefix(t, "*")
	return len(t) > 2 && t[0] == 'p' && t[1] >= '0' && t[1] <= '9' && strings.Contains(t, ".")
}

func (g *gen) anyType() string {
	ts := []string{"int", "string", "bool", "float64", "error", "[]int", "[]string", "map[string]int", "chan int", "func(int) int"}
	if it := g.importedTypes(); len(it) > 0 && chance(g.c, 1, 4) {
		return it[g.c.Int(len(it))]
	}
	for _, s := range g.structs {
		if !g.shadowed(s) {
			ts = append(ts, s, "*"+s)
		}
	}
	for _, s := range g.ifaces {
		if !g.shadowed(s) {
			ts = append(ts, s)
		}
	}
	return ts[g.c.Int(len(ts))]
}

func (g *gen) lit(t string) string {
	if isImportedType(t) {
		if strings.HasPrefix(t, "*") {
			return "new(" + t[1:] + ")"
		}
		if g.hdr {
			return "*new(" + t + ")"
		}
		return "(" + t + "{})"
	}
	if g.hdr {
		if strings.HasPrefix(t, "*") {
			return "new(" + t[1:] + ")"
		}
		for _, s := range g.structs {
			if s == t {
				return "*new(" + t + ")"
			}
		}
	}
	switch t {
	case "int":
		return fmt.Sprint(g.c.Int(100))
	case "string":
		return fmt.Sprintf("%q", []string{"a", "bc", "", "x y", "hello"}[g.c.Int(5)])
	case "bool":
		return []string{"true", "false"}[g.c.Int(2)]
	case "float64":
		return []string{"1.5", "0.25", "2.0"}[g.c.Int(3)]
	case "error":
		return "error(nil)"
	case "[]int":
		return "[]int{1, 2, 3}"
	case "[]string":
		return `[]string{"a", "b"}`
	case "map[string]int":
		return `map[string]int{"a": 1}`
	case "chan int":
		return "make(chan int, 1)"
	case "func(int) int":
		return "func(x int) int { return x + 1 }"
	}
	if strings.HasPrefix(t, "*") {
		return "(&" + t[1:] + "{})"
	}
	for _, s := range g.structs {
		if s == t {
			return "(" + t + "{})"
		}
	}
	return "nil" // interfaces
}

// expr generates an expression of type t.
func (g *gen) expr(t string, d int) string {
	vs := g.visible(t)
	if d <= 0 || g.budget <= 0 {
		if len(vs) > 0 && chance(g.c, 2, 3) {
			return vs[g.c.Int(len(vs))]
		}
		return g.lit(t)
	}
	g.budget--
	k := g.c.Int(10)
	if k < 3 && len(vs) > 0 {
		return vs[g.c.Int(len(vs))]
	}
	// user functions returning exactly t
	if k == 3 {
		var cands []gfunc
		for _, f := range g.funcs {
			if len(f.results) == 1 && f.results[0] == t && !g.shadowed(f.name) {
				cands = append(cands, f)
			}
		}
		if len(cands) > 0 {
			f := cands[g.c.Int(len(cands))]
			var args []string
			for _, pt := range f.params {
				args = append(args, g.expr(pt, d-1))
			}
			return f.name + "(" + strings.Join(args, ", ") + ")"
		}
	}
	switch t {
	case "int":
		switch g.c.Int(13) {
		case 0:
			return "(" + g.expr("int", d-1) + " + " + g.expr("int", d-1) + ")"
		case 1:
			return g.expr("int", d-1) + " * " + g.expr("int", d-1)
		case 2:
			return "len(" + g.expr("string", d-1) + ")"
		case 3:
			return "len(" + g.expr("[]int", d-1) + ")"
		case 4:
			if p, ok := g.impByPath("strings"); ok {
				return p + ".Count(" + g.expr("string", d-1) + ", " + g.expr("string", d-1) + ")"
			}
		case 5:
			if p, ok := g.impByPath("math/rand"); ok {
				return p + ".Intn(" + g.expr("int", d-1) + " + 1)"
			}
		case 6:
			return g.expr("[]int", d-1) + "[" + g.index() + "]"
		case 7:
			return g.expr("map[string]int", d-1) + "[" + g.expr("string", d-1) + "]"
		case 8:
			return "-(" + g.expr("int", d-1) + ")"
		case 9:
			return "(len(" + g.expr("[]string", d-1) + ") + 1)"
		case 10:
			if len(g.structs) > 0 {
				s := g.structs[g.c.Int(len(g.structs))]
				if !g.shadowed(s) {
					return "(" + g.expr(s, d-1) + ").A"
				}
			}
		case 12:
			for _, it := range g.importedTypes() {
				if strings.HasSuffix(it, ".Buffer") || strings.HasSuffix(it, ".Builder") {
					if vs := g.visible(it); len(vs) > 0 {
						return vs[g.c.Int(len(vs))] + ".Len()"
					}
				}
			}
		case 11:
			if p, ok := g.impByPath("unicode/utf8"); ok {
				return p + ".RuneCountInString(" + g.expr("string", d-1) + ")"
			}
		}
		return g.lit(t)
	case "string":
		switch g.c.Int(10) {
		case 0:
			return g.expr("string", d-1) + " + " + g.expr("string", d-1)
		case 1:
			if p, ok := g.impByPath("strconv"); ok {
				return p + ".Itoa(" + g.expr("int", d-1) + ")"
			}
		case 2:
			if p, ok := g.impByPath("strings"); ok {
				return p + ".ToUpper(" + g.expr("string", d-1) + ")"
			}
		case 3:
			if p, ok := g.impByPath("fmt"); ok {
				return p + ".Sprint(" + g.expr(g.anyScalar(), d-1) + ", " + g.expr("int", d-1) + ")"
			}
		case 4:
			if p, ok := g.impByPath("strings"); ok {
				return p + ".Repeat(" + g.expr("string", d-1) + ", " + g.expr("int", d-1) + ")"
			}
		case 5:
			if len(g.ifaces) > 0 {
				s := g.ifaces[g.c.Int(len(g.ifaces))]
				if vs := g.visible(s); !g.shadowed(s) && len(vs) > 0 {
					return vs[g.c.Int(len(vs))] + ".M(" + g.expr("int", d-1) + ")"
				}
			}
		case 6:
			if p, ok := g.impByPath("path"); ok {
				return p + ".Join(" + g.expr("string", d-1) + ", " + g.expr("string", d-1) + ")"
			}
		case 7:
			if p, ok := g.impByPath("path/filepath"); ok {
				return p + ".Base(" + g.expr("string", d-1) + ")"
			}
		case 8:
			if len(g.structs) > 0 {
				s := g.structs[g.c.Int(len(g.structs))]
				if !g.shadowed(s) {
					return "(" + g.expr("*"+s, d-1) + ").B"
				}
			}
		case 9:
			return g.expr("[]string", d-1) + "[0]"
		}
		return g.lit(t)
	case "bool":
		switch g.c.Int(8) {
		case 0:
			return g.expr("int", d-1) + " < " + g.expr("int", d-1)
		case 1:
			return g.expr("string", d-1) + " == " + g.expr("string", d-1)
		case 2:
			return "!(" + g.expr("bool", d-1) + ")"
		case 3:
			return "(" + g.expr("bool", d-1) + " && " + g.expr("bool", d-1) + ")"
		case 4:
			if p, ok := g.impByPath("strings"); ok {
				return p + ".HasPrefix(" + g.expr("string", d-1) + ", " + g.expr("string", d-1) + ")"
			}
		case 5:
			return g.expr("error", d-1) + " != nil"
		case 6:
			if p, ok := g.impByPath("errors"); ok {
				return p + ".Is(" + g.expr("error", d-1) + ", " + g.expr("error", d-1) + ")"
			}
		case 7:
			return "(" + g.expr("bool", d-1) + " || " + g.expr("float64", d-1) + " > 1)"
		}
		return g.lit(t)
	case "float64":
		switch g.c.Int(4) {
		case 0:
			if p, ok := g.impByPath("math"); ok {
				return p + ".Sqrt(" + g.expr("float64", d-1) + ")"
			}
		case 1:
			return "float64(" + g.expr("int", d-1) + ")"
		case 2:
			if p, ok := g.impByPath("math"); ok {
				return p + ".Pi"
			}
		case 3:
			return g.expr("float64", d-1) + " / 2"
		}
		return g.lit(t)
	case "error":
		switch g.c.Int(4) {
		case 0:
			if p, ok := g.impByPath("errors"); ok {
				return p + ".New(" + g.expr("string", d-1) + ")"
			}
		case 1:
			if p, ok := g.impByPath("fmt"); ok {
				return p + `.Errorf("e %d", ` + g.expr("int", d-1) + ")"
			}
		case 2:
			if p, ok := g.impByPath("os"); ok {
				return p + ".ErrNotExist"
			}
		}
		return "error(nil)"
	case "[]int":
		switch g.c.Int(4) {
		case 0:
			return "append(" + g.expr("[]int", d-1) + ", " + g.expr("int", d-1) + ")"
		case 1:
			return g.expr("[]int", d-1) + "[1:]"
		case 2:
			return "make([]int, " + g.index() + ")"
		case 3:
			return "[]int{" + g.expr("int", d-1) + ", " + g.expr("int", d-1) + "}"
		}
	case "[]string":
		switch g.c.Int(4) {
		case 0:
			if p, ok := g.impByPath("strings"); ok {
				return p + ".Fields(" + g.expr("string", d-1) + ")"
			}
		case 1:
			if p, ok := g.impByPath("os"); ok {
				return p + ".Args"
			}
		case 2:
			return "[]string{" + g.expr("string", d-1) + "}"
		case 3:
			if p, ok := g.impByPath("strings"); ok {
				return p + ".Split(" + g.expr("string", d-1) + `, ",")`
			}
		}
	case "map[string]int":
		if chance(g.c, 1, 2) {
			return "map[string]int{" + g.expr("string", d-1) + ": " + g.expr("int", d-1) + "}"
		}
		return "make(map[string]int)"
	case "func(int) int":
		if chance(g.c, 1, 2) {
			g.push()
			x := g.fresh(false)
			g.declare(x, "int")
			body := g.expr("int", d-1)
			g.pop()
			return "func(" + x + " int) int { return " + body + " }"
		}
	}
	if isImportedType(t) {
		return g.lit(t)
	}
	if g.hdr {
		if strings.HasPrefix(t, "*") {
			return g.lit(t)
		}
		for _, s := range g.structs {
			if s == t {
				return g.lit(t)
			}
		}
	}
	if strings.HasPrefix(t, "*") {
		s := t[1:]
		switch g.c.Int(3) {
		case 0:
			return "(&" + s + "{A: " + g.expr("int", d-1) + "})"
		case 1:
			return "new(" + s + ")"
		}
		return g.lit(t)
	}
	for _, s := range g.structs {
		if s == t {
			switch g.c.Int(3) {
			case 0:
				return "(" + t + "{A: " + g.expr("int", d-1) + ", B: " + g.expr("string", d-1) + "})"
			case 1:
				return "(" + t + "{" + g.expr("int", d-1) + ", " + g.expr("string", d-1) + ", " + g.expr("[]int", d-1) + "})"
			case 2:
				if len(g.visible("*"+t)) > 0 {
					return "(*" + g.expr("*"+t, 0) + ")"
				}
			}
			return "(" + t + "{})"
		}
	}
	for _, s := range g.ifaces {
		if s == t && len(g.structs) > 0 {
			st := g.structs[g.c.Int(len(g.structs))]
			if !g.shadowed(st) {
				return s + "(" + g.expr(st, d-1) + ")"
			}
		}
	}
	return g.lit(t)
}

func (g *gen) anyScalar() string { return scalarTypes[g.c.Int(len(scalarTypes))] }

type sb struct {
	strings.Builder
	ind int
}

func (b *sb) line(format string, a ...any) {
	b.WriteString(strings.Repeat("\t", b.ind))
	fmt.Fprintf(&b.Builder, format, a...)
	b.WriteByte('\n')
}

// stmts emits n statements into b.
func (g *gen) stmts(b *sb, n, d int) {
	for i := 0; i < n; i++ {
		g.stmt(b, d)
	}
}

func (g *gen) xgoStmt(b *sb, d int) bool {
	// calls through overload families of synthetic XGo packages
	var idx []int
	for i, s := range g.imps {
		if s.xgo > 0 {
			idx = append(idx, i)
		}
	}
	if len(idx) == 0 {
		return false
	}
	i := idx[g.c.Int(len(idx))]
	x := g.xgo[g.imps[i].xgo-1]
	p := g.imp(i)
	switch g.c.Int(8) {
	case 6, 7:
		// both members of a comma-ok pair with the same non-constant argument
		k := g.fresh(false)
		b.line("%s := %s", k, g.expr("string", d-1))
		one := func() {
			v := g.fresh(false)
			if chance(g.c, 1, 2) {
				b.line("%s := %s.Get__0(%s)", v, p, k)
			} else {
				b.line("%s := %s.NewThing().Find__0(%s)", v, p, k)
			}
			b.line("_ = %s", v)
		}
		two := func() {
			v, ok := g.fresh(false), g.fresh(false)
			if chance(g.c, 1, 2) {
				b.line("%s, %s := %s.Get__1(%s)", v, ok, p, k)
			} else {
				b.line("%s, %s := %s.NewThing().Find__1(%s)", v, ok, p, k)
			}
			b.line("_, _ = %s, %s", v, ok)
		}
		if chance(g.c, 1, 2) {
			one()
			two()
		} else {
			two()
			one()
		}
		return true
	case 4:
		b.line("%s.G__1(%s, %s)", p, []string{"true", "false", g.expr("bool", d-1)}[g.c.Int(3)], g.expr("string", d-1))
		return true
	case 5:
		b.line("%s.G__0(%s.Opt{On: %s}, %s)", p, p, []string{"true", "false"}[g.c.Int(2)], g.expr("int", d-1))
		return true
	case 0:
		if x.Families > 0 {
			f := g.c.Int(x.Families)
			if chance(g.c, 1, 2) {
				b.line("%s.F%d__0(%s)", p, f, g.expr("int", d-1))
			} else {
				b.line("%s.F%d__1(%s)", p, f, g.expr("string", d-1))
			}
			return true
		}
	case 1:
		b.line("%s.NewThing().Run__0(%s)", p, g.expr("int", d-1))
		return true
	case 2:
		v := g.fresh(false)
		b.line("%s := %s.NewThing()", v, p)
		b.line("%s.Run__1(%s)", v, g.expr("string", d-1))
		return true
	case 3:
		b.line("_ = %s.Version", p)
		return true
	}
	return false
}

func (g *gen) stmt(b *sb, d int) {
	if g.budget <= 0 {
		b.line("_ = %s", g.lit("int"))
		return
	}
	g.budget--
	k := g.c.Int(29)
	if d <= 0 && k >= 8 {
		k = g.c.Int(8)
	}
	switch k {
	case 0, 1: // define
		t := g.anyType()
		v := g.fresh(false)
		e := g.expr(t, 2)
		if e == "nil" {
			b.line("var %s %s", v, t)
		} else {
			b.line("%s := %s", v, e)
		}
		b.line("_ = %s", v)
		g.declare(v, t)
	case 2: // assign
		t := []string{"int", "string", "bool", "[]int"}[g.c.Int(4)]
		if vs := g.visible(t); len(vs) > 0 {
			b.line("%s = %s", vs[g.c.Int(len(vs))], g.expr(t, 2))
		} else {
			b.line("_ = %s", g.expr(t, 2))
		}
	case 3: // call statement with a package-qualified function
		if chance(g.c, 1, 3) {
			i := g.c.Int(len(g.imps))
			if u := g.useImport(i, d); u != "" {
				b.line("%s", u)
				return
			}
		}
		if p, ok := g.impByPath("fmt"); ok && chance(g.c, 2, 3) {
			b.line("%s.Println(%s, %s)", p, g.expr(g.anyScalar(), 2), g.expr("string", 1))
		} else if p, ok := g.impByPath("sort"); ok {
			b.line("%s.Ints(%s)", p, g.expr("[]int", 2))
		} else if p, ok := g.impByPath("os"); ok {
			b.line("%s.Exit(%s)", p, g.expr("int", 1))
		} else {
			b.line("println(%s)", g.expr("int", 2))
		}
	case 4: // inc/dec, op-assign
		if vs := g.visible("int"); len(vs) > 0 {
			v := vs[g.c.Int(len(vs))]
			switch g.c.Int(3) {
			case 0:
				b.line("%s++", v)
			case 1:
				b.line("%s += %s", v, g.expr("int", 1))
			case 2:
				b.line("%s--", v)
			}
		} else {
			b.line("_ = %s", g.expr("int", 1))
		}
	case 5: // var decl
		t := g.anyType()
		v := g.fresh(false)
		if chance(g.c, 1, 2) {
			b.line("var %s %s", v, t)
		} else {
			e := g.expr(t, 1)
			if e == "nil" {
				b.line("var %s %s", v, t)
			} else {
				b.line("var %s %s = %s", v, t, e)
			}
		}
		b.line("_ = %s", v)
		g.declare(v, t)
	case 6: // multi-value
		if p, ok := g.impByPath("strconv"); ok {
			v, e := g.fresh(false), g.fresh(false)
			if v != e {
				b.line("%s, %s := %s.Atoi(%s)", v, e, p, g.expr("string", 1))
				b.line("_, _ = %s, %s", v, e)
				g.declare(v, "int")
				g.declare(e, "error")
				return
			}
		}
		v, ok := g.fresh(false), g.fresh(false)
		if v != ok {
			b.line("%s, %s := %s[%s]", v, ok, g.expr("map[string]int", 1), g.expr("string", 1))
			b.line("_, _ = %s, %s", v, ok)
			g.declare(v, "int")
			g.declare(ok, "bool")
		}
	case 7:
		if !g.xgoStmt(b, d) {
			b.line("_ = %s", g.expr("string", 2))
		}
	case 8, 9: // if / else
		g.push()
		if chance(g.c, 1, 3) {
			v := g.fresh(false)
			b.line("if %s := %s; %s > 0 {", v, g.hexpr("int", 1), v)
			g.declare(v, "int")
		} else {
			b.line("if %s {", g.hexpr("bool", 2))
		}
		b.ind++
		g.push()
		g.stmts(b, 1+g.c.Int(3), d-1)
		g.pop()
		b.ind--
		switch g.c.Int(3) {
		case 0:
			b.line("} else {")
			b.ind++
			g.push()
			g.stmts(b, 1+g.c.Int(2), d-1)
			g.pop()
			b.ind--
			b.line("}")
		case 1:
			b.line("} else if %s {", g.hexpr("bool", 1))
			b.ind++
			g.push()
			g.stmts(b, 1, d-1)
			g.pop()
			b.ind--
			b.line("}")
		default:
			b.line("}")
		}
		g.pop()
	case 10, 11: // for
		g.push()
		lbl := ""
		if chance(g.c, 1, 4) {
			g.labelN++
			lbl = fmt.Sprintf("L%d", g.labelN)
			b.line("%s:", lbl)
		}
		switch g.c.Int(3) {
		case 0:
			v := g.fresh(false)
			b.line("for %s := 0; %s < %s; %s++ {", v, v, g.hexpr("int", 1), v)
			g.declare(v, "int")
		case 1:
			b.line("for %s {", g.hexpr("bool", 1))
		case 2:
			b.line("for {")
		}
		b.ind++
		g.push()
		g.inLoop++
		g.stmts(b, 1+g.c.Int(3), d-1)
		if lbl != "" {
			if chance(g.c, 1, 2) {
				b.line("if %s { break %s }", g.hexpr("bool", 1), lbl)
			} else {
				b.line("if %s { continue %s }", g.hexpr("bool", 1), lbl)
			}
		} else {
			b.line("break")
		}
		g.inLoop--
		g.pop()
		b.ind--
		b.line("}")
		g.pop()
	case 12, 13: // range
		g.push()
		switch g.c.Int(5) {
		case 0:
			k, v := g.fresh(false), g.fresh(false)
			if k == v {
				v = v + "x"
			}
			b.line("for %s, %s := range %s {", k, v, g.hexpr("[]int", 2))
			g.declare(k, "int")
			g.declare(v, "int")
			b.ind++
			b.line("_, _ = %s, %s", k, v)
		case 1:
			k := g.fresh(false)
			b.line("for %s := range %s {", k, g.hexpr("map[string]int", 1))
			g.declare(k, "string")
			b.ind++
			b.line("_ = %s", k)
		case 2:
			_, v := "", g.fresh(false)
			b.line("for _, %s := range %s {", v, g.hexpr("[]string", 1))
			g.declare(v, "string")
			b.ind++
			b.line("_ = %s", v)
		case 3:
			b.line("for range %s {", g.hexpr("[]int", 1))
			b.ind++
		case 4:
			if vs := g.visible("int"); len(vs) > 0 {
				b.line("for %s = range %s {", vs[g.c.Int(len(vs))], g.hexpr("[]int", 1))
			} else {
				b.line("for range %s {", g.hexpr("string", 1))
			}
			b.ind++
		}
		g.push()
		g.inLoop++
		g.stmts(b, 1+g.c.Int(2), d-1)
		if chance(g.c, 1, 3) {
			b.line("if %s { continue }", g.hexpr("bool", 1))
		}
		g.inLoop--
		g.pop()
		b.ind--
		b.line("}")
		g.pop()
	case 14, 15: // switch
		g.push()
		withTag := chance(g.c, 2, 3)
		if withTag {
			b.line("switch %s {", g.hexpr("int", 2))
		} else {
			b.line("switch {")
		}
		n := 1 + g.c.Int(3)
		for i := 0; i < n; i++ {
			if withTag {
				if chance(g.c, 1, 3) {
					b.line("case %d, %d:", 10*i+1, 10*i+2)
				} else {
					b.line("case %d:", 10*i+3)
				}
			} else {
				b.line("case %s:", g.hexpr("bool", 1))
			}
			b.ind++
			g.push()
			g.stmts(b, 1+g.c.Int(2), d-1)
			g.pop()
			if i+1 < n && chance(g.c, 1, 4) {
				b.line("fallthrough")
			}
			b.ind--
		}
		if chance(g.c, 1, 2) {
			b.line("default:")
			b.ind++
			g.push()
			g.stmts(b, 1, d-1)
			g.pop()
			b.ind--
		}
		b.line("}")
		g.pop()
	case 16: // type switch
		g.push()
		v := g.fresh(false)
		b.line("switch %s := any(%s).(type) {", v, g.hexpr(g.anyScalar(), 1))
		b.line("case int:")
		b.ind++
		g.push()
		g.declare(v, "int")
		b.line("_ = %s", v)
		g.stmts(b, 1, d-1)
		g.pop()
		b.ind--
		b.line("case string, bool:")
		b.ind++
		g.push()
		g.declare(v, "any")
		b.line("_ = %s", v)
		g.stmts(b, 1, d-1)
		g.pop()
		b.ind--
		if chance(g.c, 1, 2) {
			b.line("default:")
			b.ind++
			b.line("_ = %s", v)
			b.ind--
		}
		b.line("}")
		g.pop()
	case 17: // select
		ch := g.expr("chan int", 1)
		if ch == "make(chan int, 1)" {
			c := g.fresh(false)
			b.line("%s := make(chan int, 1)", c)
			g.declare(c, "chan int")
			ch = c
		}
		b.line("select {")
		v := g.fresh(false)
		b.line("case %s := <-%s:", v, ch)
		b.ind++
		g.push()
		g.declare(v, "int")
		b.line("_ = %s", v)
		g.stmts(b, 1, d-1)
		g.pop()
		b.ind--
		b.line("case %s <- %s:", ch, g.expr("int", 1))
		b.ind++
		g.push()
		g.stmts(b, 1, d-1)
		g.pop()
		b.ind--
		if chance(g.c, 1, 2) {
			b.line("default:")
		}
		b.line("}")
	case 18: // block
		b.line("{")
		b.ind++
		g.push()
		g.stmts(b, 1+g.c.Int(3), d-1)
		g.pop()
		b.ind--
		b.line("}")
	case 19: // closure defined and called
		x := g.fresh(false)
		rt := []string{"int", "string"}[g.c.Int(2)]
		f := g.fresh(false)
		b.line("%s := func(%s int) %s {", f, x, rt)
		b.ind++
		g.push()
		g.declare(x, "int")
		saved := g.results
		g.results = []string{rt}
		loop := g.inLoop
		g.inLoop = 0
		g.stmts(b, 1+g.c.Int(2), d-1)
		b.line("return %s", g.expr(rt, 2))
		g.inLoop = loop
		g.results = saved
		g.pop()
		b.ind--
		b.line("}")
		g.declare(f, "closure")
		b.line("_ = %s(%s)", f, g.expr("int", 1))
	case 20: // defer / go
		if p, ok := g.impByPath("fmt"); ok {
			b.line("%s %s.Println(%s)", []string{"defer", "go"}[g.c.Int(2)], p, g.expr("string", 1))
		} else {
			b.line("defer println(%s)", g.expr("int", 1))
		}
	case 21: // immediately invoked closure
		b.line("func() {")
		b.ind++
		g.push()
		saved := g.results
		g.results = nil
		loop := g.inLoop
		g.inLoop = 0
		g.stmts(b, 1+g.c.Int(2), d-1)
		g.inLoop = loop
		g.results = saved
		g.pop()
		b.ind--
		b.line("}()")
	case 22: // local const block with iota
		a, c2 := g.fresh(false), g.fresh(false)
		if a != c2 {
			b.line("const (")
			b.line("\t%s = iota + %d", a, g.c.Int(5))
			b.line("\t%s", c2)
			b.line(")")
			b.line("_, _ = %s, %s", a, c2)
			g.declare(a, "untyped")
			g.declare(c2, "untyped")
		}
	case 23: // send / receive statement
		ch := g.visible("chan int")
		if len(ch) > 0 {
			if chance(g.c, 1, 2) {
				b.line("%s <- %s", ch[0], g.expr("int", 1))
			} else {
				b.line("<-%s", ch[0])
			}
		} else {
			b.line("_ = %s", g.expr("bool", 2))
		}
	case 24: // early return
		if chance(g.c, 1, 2) {
			b.line("if %s {", g.hexpr("bool", 1))
			b.ind++
			g.ret(b)
			b.ind--
			b.line("}")
		} else {
			b.line("_ = %s", g.expr("float64", 2))
		}
	case 26, 27: // a closure with statements passed as an argument: its body is compiled
		// while operands of the enclosing call are pending on the stack
		if g.helper == "" || g.shadowed(g.helper) {
			b.line("_ = %s", g.expr("int", 2))
			return
		}
		x := g.fresh(false)
		b.line("_ = %s(%s, func(%s int) int {", g.helper, g.expr("int", 1), x)
		b.ind++
		g.push()
		g.declare(x, "int")
		saved := g.results
		g.results = []string{"int"}
		loop := g.inLoop
		g.inLoop = 0
		g.stmts(b, 1+g.c.Int(3), d-1)
		b.line("return %s", g.expr("int", 2))
		g.inLoop = loop
		g.results = saved
		g.pop()
		b.ind--
		b.line("})")
	case 28: // imported types in positions other than declarations
		it := g.importedTypes()
		if len(it) == 0 {
			b.line("_ = %s", g.expr("string", 2))
			return
		}
		t := it[g.c.Int(len(it))]
		switch g.c.Int(3) {
		case 0:
			v := g.fresh(false)
			b.line("switch %s := any(%s).(type) {", v, g.hexpr("int", 1))
			b.line("case %s:", t)
			b.line("\t_ = %s", v)
			b.line("default:")
			b.line("\t_ = %s", v)
			b.line("}")
		case 1:
			f := g.fresh(false)
			b.line("%s := func(x %s, n int) int { return n }", f, t)
			b.line("_ = %s", f)
			g.declare(f, "closure")
		case 2:
			v, ok := g.fresh(false), g.fresh(false)
			if v == ok {
				ok += "k"
			}
			b.line("%s, %s := any(%s).(%s)", v, ok, g.expr("string", 1), t)
			b.line("_, _ = %s, %s", v, ok)
			g.declare(v, t)
			g.declare(ok, "bool")
		}
	case 25: // field / index / pointer assignment
		if len(g.structs) > 0 {
			s := g.structs[g.c.Int(len(g.structs))]
			if vs := g.visible("*" + s); len(vs) > 0 && !g.shadowed(s) {
				b.line("%s.A = %s", vs[0], g.expr("int", 2))
				b.line("%s.C[0] = %s", vs[0], g.expr("int", 1))
				return
			}
		}
		if vs := g.visible("[]int"); len(vs) > 0 {
			b.line("%s[%s] = %s", vs[0], g.index(), g.expr("int", 1))
		} else if vs := g.visible("map[string]int"); len(vs) > 0 {
			b.line("%s[%s] = %s", vs[0], g.expr("string", 1), g.expr("int", 1))
		} else {
			b.line("_ = %s", g.expr("int", 2))
		}
	}
}

func (g *gen) ret(b *sb) {
	if len(g.results) == 0 {
		b.line("return")
		return
	}
	var es []string
	for _, t := range g.results {
		es = append(es, g.expr(t, 1))
	}
	b.line("return %s", strings.Join(es, ", "))
}

// GenOptions shape a synthetic program.
type GenOptions struct {
	MaxFiles, MaxDecls, MaxDepth, Budget int
	Lib                                  bool // non-main package (XGoPackage marker logic)
	WantXGo                              int  // number of synthetic XGo packages to import
}

// Generate draws a synthetic multi-file package.
func Generate(c Chooser, o GenOptions) *Program {
	g := &gen{c: c, used: map[int]bool{}, names: map[string]bool{"main": true, "init": true}}
	p := &Program{PkgPath: "example.com/gen/prog", PkgName: "main"}
	if o.Lib {
		p.PkgName = "prog"
	}
	g.p = p
	// imports of the package
	nimp := 2 + c.Int(6)
	perm := map[int]bool{}
	for len(g.imps) < nimp {
		i := c.Int(len(stdImports))
		for perm[i] { // linear probe: a chooser that always answers 0 must terminate
			i = (i + 1) % len(stdImports)
		}
		perm[i] = true
		g.imps = append(g.imps, stdImports[i])
	}
	// always offer fmt and strings-ish so expressions have material
	for _, must := range []string{"fmt", "strings", "strconv"} {
		if _, ok := g.impByPathNoUse(must); !ok {
			for _, s := range stdImports {
				if s.path == must {
					g.imps = append(g.imps, s)
				}
			}
		}
	}
	for i := 0; i < o.WantXGo; i++ {
		x := GenXGo(c, i, len(g.xgo))
		g.xgo = append(g.xgo, x)
		g.imps = append(g.imps, impSpec{x.Path, x.Base, len(g.xgo)})
	}
	p.XGo = g.xgo
	seen := map[string]bool{}
	for _, s := range g.imps {
		if !seen[s.base] {
			seen[s.base] = true
			g.pool = append(g.pool, s.base)
		}
	}
	// packages gogen itself may reference implicitly (big-number literals, conversions)
	for _, n := range []string{"big", "strconv", "builtin"} {
		if !seen[n] {
			seen[n] = true
			g.pool = append(g.pool, n)
		}
	}
	sort.Strings(g.pool)

	nfiles := 1 + c.Int(o.MaxFiles)
	type decl struct {
		text string
		used map[int]bool
	}
	var decls []decl
	emit := func(f func(b *sb)) {
		g.used = map[int]bool{}
		b := &sb{}
		f(b)
		used := map[int]bool{}
		for _, m := range impUse.FindAllStringSubmatch(b.String(), -1) {
			n, _ := strconv.Atoi(m[1])
			used[n] = true
		}
		decls = append(decls, decl{b.String(), used})
	}
	// types first (so that expressions can use them)
	ns := c.Int(3)
	for i := 0; i < ns; i++ {
		name := g.fresh(true)
		g.structs = append(g.structs, name)
		emit(func(b *sb) {
			if chance(c, 1, 3) {
				b.line("// %s is a record.", name)
			}
			b.line("type %s struct {", name)
			b.line("\tA int")
			b.line("\tB string")
			b.line("\tC []int")
			b.line("}")
		})
	}
	if chance(c, 1, 2) {
		// a grouped declaration: type ( ... ), members may be completed in any order
		a, bb2 := g.fresh(true), g.fresh(true)
		fld := ""
		if it := g.importedTypes(); len(it) > 0 {
			t := it[c.Int(len(it))]
			if !strings.HasPrefix(t, "*") {
				t = "*" + t
			}
			fld = "\t\tD " + t + "\n"
		}
		emit(func(b *sb) {
			b.line("type (")
			b.line("\t%s struct {", a)
			b.line("\t\tNext *%s", bb2)
			b.WriteString(fld)
			b.line("\t}")
			b.line("\t%s struct {", bb2)
			b.line("\t\tPrev *%s", a)
			b.line("\t\tM map[string][]*%s", a)
			b.line("\t}")
			b.line(")")
		})
	}
	if len(g.structs) > 0 && chance(c, 2, 3) {
		iname := g.fresh(true)
		g.ifaces = append(g.ifaces, iname)
		emit(func(b *sb) { b.line("type %s interface {\n\tM(int) string\n}", iname) })
		for _, s := range g.structs {
			s := s
			emit(func(b *sb) {
				g.budget = o.Budget / 4
				g.scopes = nil
				g.push()
				r, x := g.fresh(false), g.fresh(false)
				if r == x {
					x += "x"
				}
				recv := s
				if chance(c, 1, 2) {
					recv = "*" + s
				}
				_ = recv
				b.line("func (%s %s) M(%s int) string {", r, s, x)
				g.declare(r, s)
				g.declare(x, "int")
				b.ind++
				g.results = []string{"string"}
				g.stmts(b, c.Int(3), 2)
				g.ret(b)
				b.ind--
				b.line("}")
				g.pop()
			})
		}
	}
	// a higher-order helper, so that closures with statements appear as call arguments
	if chance(c, 3, 4) {
		g.helper = g.fresh(true)
		h := g.helper
		emit(func(b *sb) {
			b.line("func %s(a int, f func(int) int) int {", h)
			b.line("\treturn f(a)")
			b.line("}")
		})
	}
	// named basic type with const block
	if chance(c, 1, 2) {
		tn := g.fresh(true)
		a, bb, cc := g.fresh(true), g.fresh(true), g.fresh(true)
		emit(func(b *sb) { b.line("type %s int", tn) })
		emit(func(b *sb) {
			b.line("const (")
			b.line("\t%s %s = iota", a, tn)
			b.line("\t%s", bb)
			b.line("\t%s", cc)
			b.line(")")
		})
	}
	nd := 1 + c.Int(o.MaxDecls)
	for i := 0; i < nd; i++ {
		switch c.Int(6) {
		case 0, 1: // package-level var
			t := g.anyType()
			name := g.fresh(true)
			emit(func(b *sb) {
				g.budget = o.Budget / 8
				g.scopes = nil
				e := g.expr(t, 2)
				if e == "nil" || chance(c, 1, 4) {
					b.line("var %s %s", name, t)
				} else if chance(c, 1, 2) {
					b.line("var %s = %s", name, e)
					if t == "int" || t == "string" || t == "bool" || t == "float64" {
						// keep the declared type exact for later uses
					} else if strings.HasPrefix(e, "nil") {
						b.Reset()
						b.line("var %s %s", name, t)
					}
				} else {
					b.line("var %s %s = %s", name, t, e)
				}
			})
			g.globals = append(g.globals, gvar{name, t})
		case 2: // const
			name := g.fresh(true)
			emit(func(b *sb) {
				if p, ok := g.impByPath("math"); ok && chance(c, 1, 3) {
					b.line("const %s = %s.MaxInt16 + %d", name, p, c.Int(9))
				} else if p, ok := g.impByPath("strconv"); ok && chance(c, 1, 3) {
					b.line("const %s = %s.IntSize", name, p)
				} else if it := g.importedTypes(); len(it) > 0 && chance(c, 1, 3) {
					b.Reset()
					b.line("var %s map[string][]%s", name, it[c.Int(len(it))])
				} else if chance(c, 1, 2) {
					b.line("const %s = %d", name, c.Int(50))
				} else {
					b.line("const %s = %q", name, "k")
				}
			})
		default: // function
			name := g.fresh(true)
			if o.Lib && chance(c, 1, 2) {
				name = "X" + name
				g.names[name] = true
			}
			np := c.Int(4)
			var params []string
			var results []string
			switch c.Int(4) {
			case 1:
				results = []string{g.anyScalar()}
			case 2:
				results = []string{"int", "error"}
			case 3:
				results = []string{g.anyType()}
			}
			fn := gfunc{name: name, results: results}
			emit(func(b *sb) {
				g.budget = o.Budget
				g.scopes = nil
				g.push()
				var ps []string
				for k := 0; k < np; k++ {
					t := g.anyType()
					pn := g.fresh(false)
					dup := false
					for _, q := range g.scopes[0] {
						if q.name == pn {
							dup = true
						}
					}
					if dup {
						pn = fmt.Sprintf("%s_%d", pn, k)
					}
					g.declare(pn, t)
					params = append(params, t)
					ps = append(ps, pn+" "+t)
				}
				res := ""
				named := len(results) > 0 && chance(c, 1, 4)
				if named {
					var rs []string
					for k, t := range results {
						rn := g.fresh(false)
						dup := false
						for _, q := range g.scopes[0] {
							if q.name == rn {
								dup = true
							}
						}
						if dup {
							rn = fmt.Sprintf("%s_r%d", rn, k)
						}
						g.declare(rn, t)
						rs = append(rs, rn+" "+t)
					}
					res = " (" + strings.Join(rs, ", ") + ")"
				} else if len(results) == 1 {
					res = " " + results[0]
				} else if len(results) > 1 {
					res = " (" + strings.Join(results, ", ") + ")"
				}
				if chance(c, 1, 3) {
					b.line("// %s does something.", name)
					if chance(c, 1, 2) {
						b.line("// Second line of the comment.")
					}
				}
				b.line("func %s(%s)%s {", name, strings.Join(ps, ", "), res)
				b.ind++
				g.results = results
				g.push()
				g.stmts(b, 1+c.Int(5), o.MaxDepth)
				g.pop()
				g.ret(b)
				b.ind--
				b.line("}")
				g.pop()
			})
			fn.params = params
			g.funcs = append(g.funcs, fn)
		}
	}
	// exported API reaching several XGo packages (the package-marker constant lists them)
	if o.Lib && len(g.xgo) > 0 {
		emit(func(b *sb) {
			var ps []string
			for i, s := range g.imps {
				if s.xgo > 0 && (chance(c, 3, 4) || len(ps) == 0) {
					ps = append(ps, fmt.Sprintf("a%d *%s.Thing", i, g.imp(i)))
				}
			}
			name := "XUse" + g.fresh(true)
			b.line("func %s(%s) {", name, strings.Join(ps, ", "))
			b.line("}")
		})
		if chance(c, 1, 2) {
			emit(func(b *sb) {
				name := "XHolder" + g.fresh(true)
				b.line("type %s struct {", name)
				for i, s := range g.imps {
					if s.xgo > 0 && chance(c, 1, 2) {
						b.line("\tF%d %s.Thing", i, g.imp(i))
					}
				}
				b.line("\tN int")
				b.line("}")
			})
		}
	}
	if !o.Lib {
		emit(func(b *sb) {
			g.budget = o.Budget
			g.scopes = nil
			g.push()
			g.results = nil
			b.line("func main() {")
			b.ind++
			g.stmts(b, 1+c.Int(4), o.MaxDepth)
			b.ind--
			b.line("}")
			g.pop()
		})
	}
	// distribute over files
	files := make([][]decl, nfiles)
	for _, d := range decls {
		k := c.Int(nfiles)
		files[k] = append(files[k], d)
	}
	for k, ds := range files {
		var b strings.Builder
		fmt.Fprintf(&b, "package %s\n\n", p.PkgName)
		used := map[int]bool{}
		for _, d := range ds {
			for i := range d.used {
				used[i] = true
			}
		}
		var idx []int
		for i := range used {
			idx = append(idx, i)
		}
		sort.Ints(idx)
		if len(idx) > 0 {
			b.WriteString("import (\n")
			for _, i := range idx {
				fmt.Fprintf(&b, "\tp%d %q\n", i, g.imps[i].path)
			}
			b.WriteString(")\n\n")
		}
		for _, d := range ds {
			b.WriteString(d.text)
			b.WriteByte('\n')
		}
		p.Files = append(p.Files, SrcFile{Name: fmt.Sprintf("f%d.go", k), Text: b.String()})
	}
	return p
}

func (g *gen) impByPathNoUse(path string) (int, bool) {
	for i, s := range g.imps {
		if s.path == path {
			return i, true
		}
	}
	return 0, false
}

// useImport emits a characteristic statement using import i (so that imports with equal
// base names both end up used in one file).
func (g *gen) useImport(i, d int) string {
	s := g.imps[i]
	if s.xgo > 0 {
		return fmt.Sprintf("_ = %s.Version", g.imp(i))
	}
	switch s.path {
	case "crypto/rand":
		return fmt.Sprintf("_ = %s.Reader", g.imp(i))
	case "math/rand":
		return fmt.Sprintf("_ = %s.Int()", g.imp(i))
	case "text/template", "html/template":
		return fmt.Sprintf("_ = %s.New(%s)", g.imp(i), g.expr("string", 1))
	case "bytes":
		return fmt.Sprintf("_ = %s.NewBufferString(%s).Len()", g.imp(i), g.expr("string", 1))
	case "math/big":
		return fmt.Sprintf("_ = %s.NewInt(int64(%s)).String()", g.imp(i), g.expr("int", 1))
	case "path":
		return fmt.Sprintf("_ = %s.Base(%s)", g.imp(i), g.expr("string", 1))
	case "path/filepath":
		return fmt.Sprintf("_ = %s.Clean(%s)", g.imp(i), g.expr("string", 1))
	case "os":
		return fmt.Sprintf("_ = %s.Getpid()", g.imp(i))
	case "errors":
		return fmt.Sprintf("_ = %s.New(%s)", g.imp(i), g.expr("string", 1))
	case "unicode/utf8":
		return fmt.Sprintf("_ = %s.ValidString(%s)", g.imp(i), g.expr("string", 1))
	case "math":
		return fmt.Sprintf("_ = %s.Abs(%s)", g.imp(i), g.expr("float64", 1))
	case "sort":
		return fmt.Sprintf("%s.Strings(%s)", g.imp(i), g.expr("[]string", 1))
	}
	return ""
}

// index gives a non-negative index expression.
func (g *gen) index() string {
	if vs := g.visible("int"); len(vs) > 0 && chance(g.c, 1, 2) {
		return vs[g.c.Int(len(vs))]
	}
	return fmt.Sprint(g.c.Int(3))
}

// hexpr generates an expression for the header of if/for/switch/range, where a composite
// literal of a named struct type must not appear unparenthesised (gogen's printer drops
// the parentheses; that is C12's subject, not the claimed properties').
func (g *gen) hexpr(t string, d int) string {
	old := g.hdr
	g.hdr = true
	e := g.expr(t, d)
	g.hdr = old
	return e
}
