package prog

import (
	"fmt"
	"strings"
)

// XGoPkg describes a synthetic imported XGo extension package (generated source).
type XGoPkg struct {
	Path     string `json:"path"`
	Base     string `json:"base"`
	Families int    `json:"families"` // overloaded function families F<k>__0(int), F<k>__1(string)
	Named    int    `json:"named"`    // overloaded named-type families N<k>__0, N<k>__1
	Explicit bool   `json:"explicit"` // one family declared through an XGoo_ constant
	Deps     []int  `json:"deps"`     // indices of earlier synthetic packages its exported API mentions
}

var xgoBases = []string{"foo", "bar", "foo", "game", "rand", "fmt"}

// GenXGo draws package number i; equal base names across different directories are likely.
func GenXGo(c Chooser, i, nprev int) XGoPkg {
	x := XGoPkg{Base: xgoBases[c.Int(len(xgoBases))]}
	x.Path = fmt.Sprintf("example.com/xgo/d%d/%s", i, x.Base)
	x.Families = 1 + c.Int(4)
	x.Named = c.Int(3)
	x.Explicit = chance(c, 1, 2)
	for j := 0; j < nprev; j++ {
		if chance(c, 1, 3) {
			x.Deps = append(x.Deps, j)
		}
	}
	return x
}

// Source renders the package. all lists every synthetic package of the program (for Deps).
func (x XGoPkg) Source(all []XGoPkg) string {
	var b strings.Builder
	fmt.Fprintf(&b, "package %s\n\n", x.Base)
	if len(x.Deps) > 0 {
		b.WriteString("import (\n")
		for _, d := range x.Deps {
			fmt.Fprintf(&b, "\tq%d %q\n", d, all[d].Path)
		}
		b.WriteString(")\n\n")
	}
	b.WriteString("const XGoPackage = true\n\n")
	b.WriteString("var Version = \"1\"\n\n")
	b.WriteString("type Thing struct{ N int }\n\n")
	b.WriteString("func NewThing() *Thing { return &Thing{} }\n\n")
	b.WriteString("func (p *Thing) Run__0(a int) {}\n")
	b.WriteString("func (p *Thing) Run__1(a string) {}\n")
	b.WriteString("func (p *Thing) Stop__0() {}\n")
	b.WriteString("func (p *Thing) Stop__1(a int) {}\n\n")
	for k := 0; k < x.Families; k++ {
		fmt.Fprintf(&b, "func F%d__0(a int) {}\n", k)
		fmt.Fprintf(&b, "func F%d__1(a string) {}\n", k)
	}
	for k := 0; k < x.Named; k++ {
		fmt.Fprintf(&b, "type N%d__0 struct{}\n", k)
		fmt.Fprintf(&b, "type N%d__1 struct{ A int }\n", k)
	}
	if x.Explicit {
		b.WriteString("func PutInt(a int) {}\nfunc PutString(a string) {}\nconst XGoo_Put = \"PutInt,PutString\"\n")
	}
	for _, d := range x.Deps {
		fmt.Fprintf(&b, "func Dep%d() *q%d.Thing { return nil }\n", d, d)
	}
	return b.String()
}

// StdImportPaths lists the standard packages synthetic programs may import.
func StdImportPaths() []string {
	var ps []string
	for _, s := range stdImports {
		ps = append(ps, s.path)
	}
	return ps
}
