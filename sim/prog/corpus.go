package prog

import (
	"bytes"
	"os"
	"path/filepath"
	"sort"
	"strings"
)

// CorpusPaths are pure-Go standard packages whose sources are compiled through minicl.
var CorpusPaths = []string{"container/list", "container/ring", "container/heap", "unicode/utf8", "unicode/utf16",
	"encoding/hex", "path", "hash/fnv", "text/tabwriter", "strconv", "bufio", "html", "errors", "sort",
	"strings", "bytes", "encoding/base64", "go/token", "text/scanner", "io", "encoding/csv", "net/url", "mime", "regexp/syntax",
	"hash/crc32", "hash/adler32", "container/list", "unicode", "math/cmplx", "os/signal", "encoding/pem", "go/scanner", "text/template/parse"}

// LoadCorpus reads the non-test, unconstrained Go files of a standard package.
func LoadCorpus(goroot, path string) *Program {
	dir := filepath.Join(goroot, "src", path)
	ents, err := os.ReadDir(dir)
	if err != nil {
		return nil
	}
	p := &Program{PkgPath: path, Corpus: path}
	var names []string
	for _, e := range ents {
		names = append(names, e.Name())
	}
	sort.Strings(names)
	for _, n := range names {
		if !strings.HasSuffix(n, ".go") || strings.HasSuffix(n, "_test.go") {
			continue
		}
		b, err := os.ReadFile(filepath.Join(dir, n))
		if err != nil {
			continue
		}
		if bytes.Contains(b, []byte("//go:build")) || bytes.Contains(b, []byte("// +build")) {
			continue
		}
		p.Files = append(p.Files, SrcFile{Name: n, Text: string(b)})
	}
	if len(p.Files) == 0 {
		return nil
	}
	return p
}
