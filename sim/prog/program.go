package prog

import (
	"regexp"

	"gogenverif/sim/imp"
)

var impLine = regexp.MustCompile(`^\t(p\d+) "[^"]+"$`)

// Synthetics renders the synthetic imported packages of a program for the task importer.
func (p *Program) Synthetics() []*imp.Synthetic {
	var out []*imp.Synthetic
	for _, x := range p.XGo {
		out = append(out, &imp.Synthetic{Path: x.Path, Files: map[string]string{"x.go": x.Source(p.XGo)}})
	}
	return out
}

// SplitDecls cuts generated source into the package clause (+imports) and top-level
// declarations; generated files separate them by blank lines at column 0.
func SplitDecls(text string) []string {
	var chunks []string
	var cur []string
	flush := func() {
		if len(cur) > 0 {
			chunks = append(chunks, joinLines(cur))
			cur = nil
		}
	}
	depth := 0
	for _, l := range splitLines(text) {
		if l == "" && depth == 0 {
			flush()
			continue
		}
		cur = append(cur, l)
		for _, ch := range l {
			switch ch {
			case '{', '(':
				depth++
			case '}', ')':
				depth--
			}
		}
	}
	flush()
	return chunks
}

func JoinDecls(chunks []string) string {
	s := ""
	for _, c := range chunks {
		s += c + "\n\n"
	}
	return s
}

func splitLines(s string) []string {
	var out []string
	start := 0
	for i := 0; i < len(s); i++ {
		if s[i] == '\n' {
			out = append(out, s[start:i])
			start = i + 1
		}
	}
	if start < len(s) {
		out = append(out, s[start:])
	}
	return out
}

func joinLines(ls []string) string {
	s := ""
	for i, l := range ls {
		if i > 0 {
			s += "\n"
		}
		s += l
	}
	return s
}

// FixImports drops import lines of generated source whose alias is no longer used.
func FixImports(text string) string {
	lines := splitLines(text)
	var out []string
	for _, l := range lines {
		if m := impLine.FindStringSubmatch(l); m != nil {
			used := false
			for _, o := range lines {
				if o != l && containsUse(o, m[1]) {
					used = true
					break
				}
			}
			if !used {
				continue
			}
		}
		out = append(out, l)
	}
	return joinLines(out) + "\n"
}

func containsUse(line, alias string) bool {
	for i := 0; i+len(alias) < len(line); i++ {
		if line[i:i+len(alias)] == alias && line[i+len(alias)] == '.' {
			if i == 0 || !(line[i-1] == '_' || line[i-1] >= '0' && line[i-1] <= '9' || line[i-1] >= 'a' && line[i-1] <= 'z' || line[i-1] >= 'A' && line[i-1] <= 'Z') {
				return true
			}
		}
	}
	return false
}
