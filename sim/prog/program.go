package prog

import "gogenverif/sim/imp"

// Synthetics renders the synthetic imported packages of a program for the task importer.
func (p *Program) Synthetics() []*imp.Synthetic {
	var out []*imp.Synthetic
	for _, x := range p.XGo {
		out = append(out, &imp.Synthetic{Path: x.Path, Files: map[string]string{"x.go": x.Source(p.XGo)}})
	}
	return out
}
