package prog

import (
	"fmt"
	"go/token"
	"math/rand"
	"os"
	"testing"

	"gogenverif/sim/imp"
	"gogenverif/sim/minicl"
)

type rc struct{ r *rand.Rand }

func (c rc) Int(n int) int { return c.r.Intn(n) }

func TestSynthValid(t *testing.T) {
	goBin := os.Getenv("VERIF_REALGO")
	if goBin == "" {
		t.Skip()
	}
	ex, err := imp.Locate(goBin, ".", StdImportPaths()...)
	if err != nil {
		t.Fatal(err)
	}
	ok, bad := 0, 0
	for seed := 0; seed < 300; seed++ {
		c := rc{rand.New(rand.NewSource(int64(seed)))}
		p := Generate(c, GenOptions{MaxFiles: 3, MaxDecls: 8, MaxDepth: 3, Budget: 60, Lib: seed%2 == 0, WantXGo: seed % 4})
		fset := token.NewFileSet()
		im := ex.NewImporter(fset, p.Synthetics())
		var src []minicl.SrcFile
		for _, f := range p.Files {
			src = append(src, minicl.SrcFile{Name: f.Name, Text: f.Text})
		}
		_, _, _, err := minicl.Load(fset, p.PkgPath, src, im)
		if err != nil {
			bad++
			if bad <= 8 {
				t.Logf("seed %d: %v", seed, err)
			}
			if os.Getenv("SYNTH_DUMP") == fmt.Sprint(seed) {
				for _, f := range p.Files {
					t.Logf("%s:\n%s", f.Name, f.Text)
				}
			}
			continue
		}
		ok++
	}
	t.Logf("valid %d invalid %d", ok, bad)
}
