package c20

import (
	"fmt"
	"os"
	"os/exec"
	"path/filepath"
	"strings"
	"testing"

	"pgregory.net/rapid"

	"gogenverif/sim/core"
)

var root string

func TestMain(m *testing.M) {
	stub := os.Getenv("VERIF_STUBBIN") // directory holding the stub `go`
	scratch := os.Getenv("VERIF_SCRATCH")
	if stub == "" || scratch == "" {
		fmt.Fprintln(os.Stderr, "c20: VERIF_STUBBIN and VERIF_SCRATCH must be set (use /verif/check)")
		os.Exit(2)
	}
	root = filepath.Join(scratch, fmt.Sprintf("c20-world-%d", os.Getpid()))
	// real export data (records with real_export): the stub compiles `const Ident = "<identity>"`
	// with the toolchain's compiler and keeps the archives in a store shared by all workers
	realGo := os.Getenv("VERIF_REALGO")
	if realGo == "" {
		realGo = "go"
	}
	td, err := exec.Command(realGo, "env", "GOTOOLDIR").Output()
	if err != nil {
		fmt.Fprintln(os.Stderr, "c20: cannot locate the compiler:", err)
		os.Exit(2)
	}
	os.Setenv("VERIF_COMPILE", filepath.Join(strings.TrimSpace(string(td)), "compile"))
	store := filepath.Join(scratch, "c20-store")
	os.MkdirAll(store, 0o755)
	os.Setenv("VERIF_STUB_STORE", store)
	os.Setenv("PATH", stub+":"+os.Getenv("PATH"))
	os.Setenv("VERIF_STUB_DIR", root)
	m.Run()
	os.RemoveAll(root)
	os.Exit(core.ExitCode())
}

func TestSim(t *testing.T) {
	mode := os.Getenv("VERIF_MODE")
	e := &core.Engine{Property: P, NewRecord: func() any { return &Record{} }, Deterministic: true, Simplify: Simplify}
	e.Exec = func(rec any) *core.Outcome {
		r := rec.(*Record)
		if r.Mode == "conc" {
			return execConc(r, root)
		}
		if r.Mode == "sweep" {
			return execSweep(r, root)
		}
		return execSeq(r, root)
	}
	e.Gen = func(rt *rapid.T) any {
		if mode == "conc" {
			return GenConc(rt)
		}
		if mode == "sweep" {
			return GenSweep(rt)
		}
		return GenSeq(rt)
	}
	core.Main(t, e)
}
