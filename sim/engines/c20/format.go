package c20

import (
	"strconv"
	"strings"
)

// An independent reading of the format documented in packages/cache/cache.go:
//
//	<pkgPath> <exportFile> <pkgHash> <depPkgNum>
//		<depPkgPath1> <depPkgHash1>
//		...
//
// (tab separated). The parser answers three-valued: well-formed, malformed, or ambiguous
// where the comment does not decide (blank lines, extra fields on a dependency line, signs
// or leading zeros in the count, empty export file or hash fields).

type diskRec struct {
	path, file, hash string
	deps             [][2]string
}

type verdict int

const (
	wellFormed verdict = iota
	malformed
	ambiguous
)

func (v verdict) String() string { return [...]string{"well-formed", "malformed", "ambiguous"}[v] }

// parseCacheFile returns the records of the longest well-formed prefix and the verdict for
// the whole file.
func parseCacheFile(b []byte) (recs []diskRec, v verdict) {
	s := string(b)
	if s == "" {
		return nil, wellFormed
	}
	amb := false
	if !strings.HasSuffix(s, "\n") {
		// a last line without terminator: the format comment does not say; the content
		// decides below
		amb = false
	} else {
		s = s[:len(s)-1]
	}
	if s == "" || strings.HasSuffix(s, "\n") {
		return nil, ambiguous // only newlines / extra trailing blank lines
	}
	lines := strings.Split(s, "\n")
	for len(lines) > 0 {
		parts := strings.Split(lines[0], "\t")
		if len(parts) != 4 || parts[0] == "" {
			if lines[0] == "" {
				return recs, ambiguous
			}
			return recs, malformed
		}
		cnt := parts[3]
		n, err := strconv.Atoi(cnt)
		if err != nil || n < 0 {
			return recs, malformed
		}
		if cnt != strconv.Itoa(n) {
			amb = true
		}
		if parts[1] == "" || parts[2] == "" {
			amb = true
		}
		if len(lines) < n+1 || n > len(lines) {
			return recs, malformed
		}
		r := diskRec{path: parts[0], file: parts[1], hash: parts[2]}
		for i := 1; i <= n; i++ {
			l := lines[i]
			if !strings.HasPrefix(l, "\t") {
				return recs, malformed
			}
			f := strings.Split(l[1:], "\t")
			if len(f) < 2 || f[0] == "" {
				return recs, malformed
			}
			if len(f) > 2 {
				amb = true
			}
			r.deps = append(r.deps, [2]string{f[0], strings.Join(f[1:], "\t")})
		}
		recs = append(recs, r)
		lines = lines[n+1:]
	}
	if amb {
		return recs, ambiguous
	}
	return recs, wellFormed
}

func (r diskRec) dumpLine() string {
	s := r.path + "\t" + r.file + "\t" + r.hash
	for _, d := range r.deps {
		s += "\t" + d[0] + "=" + d[1]
	}
	return s
}
