package c20

import (
	"errors"
	"fmt"
	"io"
	"os"
	"path/filepath"
	"sort"
	"strconv"
	"strings"

	"github.com/goplus/gogen/packages"
	"github.com/goplus/gogen/packages/cache"

	cw "gogenverif/sim/c20world"
	"gogenverif/sim/core"
	"gogenverif/sim/seams"
)

const P = "C20"

// mEntry is the reference model of one cache entry: what was recorded, by the letter.
type mEntry struct {
	file   string
	hash   string
	deps   [][2]string
	unsure bool // after an ambiguous or failed Load / garbage listing the model does not know
}

func (e *mEntry) line(path string) string {
	return diskRec{path, e.file, e.hash, e.deps}.dumpLine()
}

type seqRun struct {
	w         *world
	out       *core.Outcome
	impl      *cache.Impl
	entries   map[string]*mEntry // model of impl's entries
	nlist     int                // model of ListTimes
	hist      []string
	obs       []string
	stubN     int // stub invocations consumed so far
	knownSeen []core.Violation
	tapes     *seams.Tapes
	pimp      *packages.Importer // long-lived cache-less importer of the run
	pmemo     map[string]string  // what it has imported successfully
}

func exists(path string) bool {
	_, err := os.Stat(path)
	return err == nil
}

func resetRoot(root string) {
	os.RemoveAll(root)
	os.MkdirAll(filepath.Join(root, "exp"), 0o755)
	os.MkdirAll(filepath.Join(root, "work"), 0o755)
	os.MkdirAll(filepath.Join(root, "work2"), 0o755)
}

func newWorld(root string, r *Record) *world {
	w := &world{root: root, n: r.NPkgs, real: r.Real}
	for i := 0; i < r.NPkgs; i++ {
		w.ver[i] = 1
		w.deps[i] = append([]int{}, r.Deps[i]...)
		w.untracked[i] = r.Untracked[i]
		w.invalid[i] = r.InvalidSelf[i]
		if i < len(r.SelfSkip) {
			w.selfSkip[i] = r.SelfSkip[i]
		}
	}
	w.publish()
	return w
}

func (s *seqRun) violate(key, format string, a ...any) {
	s.out.Violate(P, key, fmt.Sprintf(format, a...))
}

// valid: by the letter of the property, evaluated on the world, not on what the
// implementation chose to ask.
func (s *seqRun) valid(path string) (ok bool, known bool) {
	e := s.entries[path]
	if e == nil {
		return false, true
	}
	if e.unsure {
		return false, false
	}
	if e.hash == "?" || e.hash != s.w.fingerprint(path, true) {
		return false, true
	}
	for _, d := range e.deps {
		if s.w.fingerprint(d[0], false) != d[1] {
			return false, true
		}
	}
	return exists(e.file), true
}

func slotFile(root string, slot int) string {
	return filepath.Join(root, fmt.Sprintf("gopkg%d.cache", slot))
}

func readAll(f io.ReadCloser) string {
	if f == nil {
		return "<nil stream>"
	}
	b, err := io.ReadAll(f)
	f.Close()
	if err != nil {
		return "<read error: " + err.Error() + ">"
	}
	return string(b)
}

// consumeStub returns the log lines of stub invocations since the last call.
func (s *seqRun) consumeStub() []cw.LogLine {
	lines, err := readStubLog(s.w.root)
	if err != nil {
		panic("harness: stub log: " + err.Error())
	}
	nw := lines[s.stubN:]
	s.stubN = len(lines)
	return nw
}

// record applies a successful listing to the model, by the letter: fingerprints are those
// of the world now (the world does not move during a sequential operation).
func (s *seqRun) record(ll cw.LogLine) {
	for _, p := range ll.Printed {
		i := pkgIndex(p.Name)
		e := &mEntry{file: p.File, hash: s.w.fingerprint(p.Name, true)}
		for _, d := range s.w.deps[i] {
			if fp := s.w.fingerprint(pkgName(d), false); fp != "" {
				e.deps = append(e.deps, [2]string{pkgName(d), fp})
			}
		}
		s.entries[p.Name] = e
	}
}

func (s *seqRun) applyListing(nw []cw.LogLine) (ok bool, ll cw.LogLine) {
	if len(nw) == 0 {
		return false, ll
	}
	ll = nw[len(nw)-1]
	s.nlist += len(nw)
	if ll.Fault != "" {
		s.out.Fault(ll.Fault)
	}
	switch {
	case ll.OK:
		s.record(ll)
		return true, ll
	case ll.Lenient:
		// a stricter or a more lenient reader are both defensible: the model no longer
		// knows whether the well-formed lines were recorded
		for _, p := range ll.Printed {
			if e := s.entries[p.Name]; e != nil {
				e.unsure = true
			} else {
				s.entries[p.Name] = &mEntry{unsure: true}
			}
		}
		return false, ll
	}
	return false, ll
}

func errStr(err error) string {
	if err == nil {
		return "<nil>"
	}
	return "error"
}

func (s *seqRun) checkDump(after string) {
	got := cache.VerifDump(s.impl)
	gm := map[string]string{}
	for _, l := range got {
		gm[l[:strings.IndexByte(l+"\t", '\t')]] = l
	}
	var paths []string
	for p := range s.entries {
		paths = append(paths, p)
	}
	sort.Strings(paths)
	for _, p := range paths {
		e := s.entries[p]
		if e.unsure {
			delete(gm, p)
			continue
		}
		if gm[p] != e.line(p) {
			s.violate("model-divergence", "after %s the cache entry of %s is %q, the model by the letter has %q", after, p, gm[p], e.line(p))
			return
		}
		delete(gm, p)
	}
	if len(gm) > 0 {
		for p, l := range gm {
			s.violate("model-divergence", "after %s the cache holds an entry the model does not have: %s -> %q", after, p, l)
			return
		}
	}
	if n := s.impl.ListTimes(); n != s.nlist {
		s.violate("listtimes", "after %s ListTimes()=%d, stub invocations by this cache=%d", after, n, s.nlist)
	}
}

func (s *seqRun) call(name string, f func()) (panicked bool) {
	defer func() {
		if r := recover(); r != nil {
			panicked = true
			s.violate("panic-"+name, "%s panicked: %v", name, r)
		}
	}()
	f()
	return false
}

func (s *seqRun) find(op Op, idx int) {
	var path string
	if op.Kind == "find_unknown" {
		path = "w/zz"
	} else {
		path = pkgName(op.Pkgs[0] % s.w.n)
	}
	if op.Fault != "" {
		s.w.planFault(op.Fault)
	}
	valid, known := s.valid(path)
	oldFile := ""
	if e := s.entries[path]; e != nil {
		oldFile = e.file
	}
	var f io.ReadCloser
	var err error
	content := ""
	tag := fmt.Sprintf("op %d Find(%s)", idx, path)
	if op.Kind == "import" {
		// the lookup as gogen's clients perform it: a packages.Importer backed by this cache
		tag = fmt.Sprintf("op %d Importer.Import(%s) with this cache", idx, path)
		if s.call("import", func() { content, err = importVia(s.impl, filepath.Join(s.w.root, "work"), path, op.A%2 == 1) }) {
			return
		}
		s.out.Probe("lookup_through_importer")
	} else {
		if s.call("find", func() { f, err = s.impl.Find(filepath.Join(s.w.root, "work"), path) }) {
			return
		}
		if err == nil {
			content = identOf(s.w.real, readAll(f))
		} else if f != nil {
			s.out.Observe("find_returned_stream_and_error")
		}
	}
	nw := s.consumeStub()
	s.obs = append(s.obs, fmt.Sprintf("%d %s %s -> %q %s lists=%d", idx, op.Kind, path, content, errStr(err), len(nw)))
	if op.Kind == "find_unknown" {
		s.applyListing(nw)
		if err == nil {
			s.violate("unknown-package-served", "%s: a package the listing command does not know was served %q", tag, content)
		}
		return
	}
	truth := s.w.stateID(pkgIndex(path))
	if known && valid {
		s.out.Probe("served_valid_entry")
		if len(nw) != 0 {
			s.applyListing(nw)
			s.violate("needless-relist", "%s: entry valid by the letter (own and dependency fingerprints unchanged, export file present) but the listing command ran %d time(s)", tag, len(nw))
			return
		}
		if err != nil {
			s.violate("valid-entry-error", "%s: entry valid but error returned: %v", tag, err)
			return
		}
		if content != truth {
			s.violate("wrong-data", "%s: returned %q, the package is %q", tag, content, truth)
		}
		return
	}
	if known && !valid {
		if len(nw) == 0 {
			if err == nil {
				s.violate("stale-served-without-relist", "%s: entry absent or invalid by the letter, yet %q served with no listing (truth %q)", tag, content, truth)
			} else {
				s.violate("invalid-entry-no-relist", "%s: entry absent or invalid, no listing ran, error %v", tag, err)
			}
			return
		}
		s.out.Probe("relist_on_invalid_entry")
		if len(nw) > 1 {
			s.out.Observe("multiple_listings_in_one_find")
		}
		ok, ll := s.applyListing(nw)
		has := false
		for _, p := range ll.Printed {
			if p.Name == path {
				has = true
			}
		}
		switch {
		case ok && has:
			e := s.entries[path]
			if !exists(e.file) { // list_missing_export
				if err == nil {
					s.violate("missing-export-served", "%s: listing named a non-existent export file, yet %q served", tag, content)
				}
				return
			}
			if err != nil {
				s.violate("fresh-listing-error", "%s: listing succeeded and named %s, yet error %v", tag, e.file, err)
				return
			}
			if content != truth {
				s.violate("wrong-data", "%s: returned %q after re-listing, the package is %q", tag, content, truth)
			}
		default:
			// the listing failed, was malformed, or did not mention the package: nothing
			// new is known to be recorded and the previous entry is invalid: only an error
			// is acceptable (after a malformed listing a lenient reader may have recorded
			// the well-formed line: current data is accepted there)
			// whether the invalid entry is kept or dropped after the failed re-listing is not
			// observable through the API: the model no longer knows
			if e := s.entries[path]; e != nil {
				e.unsure = true
			}
			if err == nil {
				if ll.Lenient && content == truth {
					return
				}
				key := "stale-after-failed-list"
				if content == truth {
					key = "invalid-entry-served-after-failed-list"
				}
				s.violate(key, "%s: the entry was invalid, the re-listing failed (%s), yet data %q from the previous entry (%s) was returned with a nil error; the package is %q",
					tag, ll.Fault, content, oldFile, truth)
			}
		}
		return
	}
	// model unsure about this entry: ground truth only
	s.applyListing(nw)
	if err == nil && content != truth {
		s.violate("wrong-data", "%s: returned %q, the package is %q (entry state uncertain after a damaged cache file)", tag, content, truth)
	}
}

// importNoCache: a packages.Importer without a cache lists the package on every import
// (packages/imp.go findExport), in the directory the import comes from, so what it returns is
// always current - except that an importer answers a path it has imported before from its own
// table ("two calls with the same path must return the same package"). op.B bit 0: the run's
// long-lived importer instead of a fresh one; op.A bit 0: ImportFrom with an explicit
// directory, bit 1: that directory is the second one, another module in which odd-numbered
// packages do not exist and the others are a different build.
func (s *seqRun) importNoCache(op Op, idx int) {
	i := op.Pkgs[0] % s.w.n
	path := pkgName(i)
	if op.Fault != "" {
		s.w.planFault(op.Fault)
	}
	dirA, dirB := filepath.Join(s.w.root, "work"), filepath.Join(s.w.root, "work2")
	from := op.A%2 == 1
	dir, want := dirA, "A"
	if from && op.A/2%2 == 1 {
		dir, want = dirB, "B"
	}
	persistent := op.B%2 == 1
	imp := packages.NewImporter(nil, dirA)
	if persistent {
		if s.pimp == nil {
			s.pimp = imp
			s.pmemo = map[string]string{}
		}
		imp = s.pimp
	}
	var content string
	var err error
	if s.call("import", func() { content, err = importWith(imp, dir, path, from) }) {
		return
	}
	nw := s.consumeStub()
	s.obs = append(s.obs, fmt.Sprintf("%d import_nocache %s dir=%s persistent=%v -> %q %s lists=%d", idx, path, want, persistent, content, errStr(err), len(nw)))
	tag := fmt.Sprintf("op %d Importer.Import(%s) without cache, from directory %s", idx, path, want)
	if persistent {
		tag += " (long-lived importer)"
		if prev, ok := s.pmemo[path]; ok {
			s.out.Probe("reimport_on_long_lived_importer")
			if len(nw) != 0 || err != nil || content != prev {
				s.violate("importer-reimport", "%s: the importer imported this path before (%q); now %q, error %v, %d listing(s)", tag, prev, content, err, len(nw))
			}
			return
		}
	}
	truth := s.w.stateID(i)
	if want == "B" {
		truth += "+B"
	}
	if len(nw) != 1 {
		s.violate("nocache-import-list-count", "%s ran the listing command %d times (a cache-less importer has nothing to answer from)", tag, len(nw))
		return
	}
	if nw[0].Fault != "" {
		s.out.Fault(nw[0].Fault)
	}
	s.out.Probe("import_without_cache")
	if want == "B" {
		s.out.Probe("import_from_second_directory")
	}
	if nw[0].Dir != want {
		s.violate("import-listed-in-wrong-directory", "%s: the listing command ran in directory %s", tag, nw[0].Dir)
		return
	}
	if err == nil && content != truth {
		s.violate("wrong-data", "%s: imported %q, the package is %q there", tag, content, truth)
		return
	}
	missing := want == "B" && i%2 == 1
	if err != nil && nw[0].Fault == "" && !missing {
		s.violate("fresh-listing-error", "%s: the listing succeeded, yet error %v", tag, err)
		return
	}
	if err == nil && missing {
		s.violate("unknown-package-served", "%s: the package does not exist in that directory, yet %q was imported", tag, content)
		return
	}
	if err == nil && persistent {
		s.pmemo[path] = content
	}
}

func (s *seqRun) prepare(op Op, idx int) {
	var paths []string
	for _, p := range op.Pkgs {
		paths = append(paths, pkgName(p%s.w.n))
	}
	if op.Fault != "" {
		s.w.planFault(op.Fault)
	}
	var err error
	if s.call("prepare", func() { err = s.impl.Prepare(filepath.Join(s.w.root, "work"), paths...) }) {
		return
	}
	nw := s.consumeStub()
	s.obs = append(s.obs, fmt.Sprintf("%d prepare %v -> %s lists=%d", idx, paths, errStr(err), len(nw)))
	tag := fmt.Sprintf("op %d Prepare(%v)", idx, paths)
	if len(nw) != 1 {
		s.applyListing(nw)
		s.violate("prepare-list-count", "%s ran the listing command %d times", tag, len(nw))
		return
	}
	ok, ll := s.applyListing(nw)
	if ok && err != nil {
		s.violate("prepare-error-on-good-listing", "%s: listing succeeded, error %v", tag, err)
	}
	if !ok && !ll.Lenient && err == nil {
		s.violate("prepare-nil-on-failed-listing", "%s: listing failed (%s), nil error", tag, ll.Fault)
	}
}

var errENOSPC = errors.New("write: no space left on device")
var errEIO = errors.New("read: input/output error")

func (s *seqRun) save(op Op, idx int) {
	file := slotFile(s.w.root, op.Slot)
	before, berr := os.ReadFile(file)
	var restore func()
	switch op.IOFault {
	case "enospc":
		restore = cache.VerifSetIO(nil, func(string, []byte, os.FileMode) error { return errENOSPC })
		s.out.Fault("save_enospc")
	case "torn_then_error":
		restore = cache.VerifSetIO(nil, func(name string, data []byte, m os.FileMode) error {
			k := 0
			if len(data) > 0 {
				k = op.A % len(data)
			}
			os.WriteFile(name, data[:k], m)
			return errENOSPC
		})
		s.out.Fault("save_torn_then_error")
	}
	var err error
	p := s.call("save", func() { err = s.impl.Save(file) })
	if restore != nil {
		restore()
	}
	if p {
		return
	}
	s.obs = append(s.obs, fmt.Sprintf("%d save %d -> %s", idx, op.Slot, errStr(err)))
	tag := fmt.Sprintf("op %d Save(slot %d)", idx, op.Slot)
	if s.nlist == 0 {
		after, aerr := os.ReadFile(file)
		if string(after) != string(before) || (berr == nil) != (aerr == nil) {
			s.out.Observe("save_wrote_although_never_listed")
		}
		return
	}
	if op.IOFault != "" {
		if err == nil {
			s.violate("save-swallowed-write-error", "%s: the write failed, nil error returned", tag)
		}
		return
	}
	if err != nil {
		s.violate("save-error", "%s: %v", tag, err)
		return
	}
	b, rerr := os.ReadFile(file)
	if rerr != nil {
		s.violate("save-no-file", "%s: no file written: %v", tag, rerr)
		return
	}
	recs, v := parseCacheFile(b)
	if v == malformed {
		s.violate("save-malformed", "%s wrote a file that is not of the documented format: %q", tag, b)
		return
	}
	// exact reproduction: the records on disk are the model's entries
	want := map[string]string{}
	for p, e := range s.entries {
		if !e.unsure {
			want[p] = e.line(p)
		}
	}
	seen := map[string]bool{}
	for _, r := range recs {
		if seen[r.path] {
			s.violate("save-duplicate-record", "%s wrote %s twice", tag, r.path)
			return
		}
		seen[r.path] = true
		if e := s.entries[r.path]; e != nil && e.unsure {
			continue
		}
		if want[r.path] != r.dumpLine() {
			s.violate("save-wrong-record", "%s wrote %q, the cache entry is %q", tag, r.dumpLine(), want[r.path])
			return
		}
		delete(want, r.path)
	}
	for p, l := range want {
		s.violate("save-lost-record", "%s did not write the entry of %s (%q)", tag, p, l)
		return
	}
	s.out.ProbeN("saved_records", len(recs))
	if len(recs) == 0 {
		s.out.Probe("saved_empty_cache")
	}
}

// load performs Load on impl and updates / checks the model.
func (s *seqRun) load(op Op, idx int, what string) {
	file := slotFile(s.w.root, op.Slot)
	b, rerr := os.ReadFile(file)
	var restore func()
	if op.IOFault == "eio" {
		restore = cache.VerifSetIO(func(string) ([]byte, error) { return nil, errEIO }, nil)
		s.out.Fault("load_eio")
	}
	var err error
	p := s.call("load", func() { err = s.impl.Load(file) })
	if restore != nil {
		restore()
	}
	tag := fmt.Sprintf("op %d %s(slot %d)", idx, what, op.Slot)
	if p {
		s.out.Violations[len(s.out.Violations)-1].Detail += fmt.Sprintf(" [file content %q]", b)
		return
	}
	s.obs = append(s.obs, fmt.Sprintf("%d %s %d -> %s", idx, what, op.Slot, errStr(err)))
	if op.IOFault == "eio" {
		if err == nil {
			s.violate("load-swallowed-read-error", "%s: the read failed with EIO, nil error returned", tag)
		}
		return
	}
	if rerr != nil {
		if err != nil {
			s.violate("load-missing-file-error", "%s: a missing cache file is documented to be no error, got %v", tag, err)
		}
		return
	}
	recs, v := parseCacheFile(b)
	s.out.Probe("load_" + v.String())
	switch v {
	case wellFormed:
		if err != nil {
			key := "load-rejects-wellformed"
			if len(b) == 0 {
				key = "empty-save-rejected-on-load"
			}
			s.violate(key, "%s: a well-formed cache file (%d records, %d bytes) was rejected: %v", tag, len(recs), len(b), err)
			return
		}
		for _, r := range recs {
			s.entries[r.path] = &mEntry{file: r.file, hash: r.hash, deps: r.deps}
		}
	case malformed:
		if err == nil {
			s.violate("malformed-accepted", "%s: a malformed cache file was loaded without error: %q", tag, b)
		}
		for _, r := range recs { // the well-formed prefix may or may not have been taken
			s.entries[r.path] = &mEntry{unsure: true}
		}
	case ambiguous:
		all, _ := parseLoose(b)
		for _, p := range all {
			s.entries[p] = &mEntry{unsure: true}
		}
	}
}

// parseLoose lists every string that could be taken for a package path in a damaged file.
func parseLoose(b []byte) ([]string, bool) {
	var out []string
	for _, l := range strings.Split(string(b), "\n") {
		if i := strings.IndexByte(l, '\t'); i > 0 {
			out = append(out, l[:i])
		}
	}
	return out, true
}

func (s *seqRun) corrupt(op Op, idx int) {
	file := slotFile(s.w.root, op.Slot)
	b, err := os.ReadFile(file)
	if err != nil {
		return // nothing to damage: a fault while idle tests nothing
	}
	s.out.Fault("file_" + op.Fault)
	var nb []byte
	switch op.Fault {
	case "torn":
		nb = b[:op.A%(len(b)+1)]
		if len(nb) < len(b) {
			s.out.Probe("torn_file")
		}
	case "zero_tail":
		nb = append([]byte{}, b...)
		for i := op.A % (len(b) + 1); i < len(nb); i++ {
			nb[i] = 0
		}
	case "empty_file":
		nb = nil
	case "line_drop", "line_dup":
		lines := strings.SplitAfter(string(b), "\n")
		if len(lines) > 0 && lines[len(lines)-1] == "" {
			lines = lines[:len(lines)-1]
		}
		if len(lines) == 0 {
			return
		}
		k := op.A % len(lines)
		var o []string
		for i, l := range lines {
			if i == k {
				if op.Fault == "line_dup" {
					o = append(o, l, l)
				}
				continue
			}
			o = append(o, l)
		}
		nb = []byte(strings.Join(o, ""))
	case "byte_replace":
		if len(b) == 0 {
			return
		}
		nb = append([]byte{}, b...)
		nb[op.A%len(b)] = byte(op.B)
	case "garbage":
		n := op.A % 200
		x := uint32(op.B*2654435761 + 12345)
		for i := 0; i < n; i++ {
			x = x*1664525 + 1013904223
			c := byte(x >> 24)
			if c%7 == 0 {
				c = '\t'
			} else if c%11 == 0 {
				c = '\n'
			}
			nb = append(nb, c)
		}
	case "count_tamper":
		lines := strings.Split(string(b), "\n")
		var hdr []int
		for i, l := range lines {
			if l != "" && !strings.HasPrefix(l, "\t") {
				hdr = append(hdr, i)
			}
		}
		if len(hdr) == 0 {
			return
		}
		i := hdr[op.A%len(hdr)]
		parts := strings.Split(lines[i], "\t")
		if len(parts) != 4 {
			return
		}
		n, _ := strconv.Atoi(parts[3])
		variants := []string{"-1", "0", strconv.Itoa(n - 1), strconv.Itoa(n + 1), "99999999999", "9223372036854775807", "x", "", "-9223372036854775808", "1e3"}
		parts[3] = variants[op.B%len(variants)]
		lines[i] = strings.Join(parts, "\t")
		nb = []byte(strings.Join(lines, "\n"))
	case "remove_file":
		os.Remove(file)
		return
	}
	os.WriteFile(file, nb, 0o644)
}

func execSeq(r *Record, root string) *core.Outcome { return execSeqOps(r, root, nil) }

func (s *seqRun) isKnownKey(k string) bool { return core.IsKnown(P, k) }

func execSeqOps(r *Record, root string, after func(s *seqRun)) *core.Outcome {
	out := &core.Outcome{}
	resetRoot(root)
	s := &seqRun{w: newWorld(root, r), out: out, entries: map[string]*mEntry{}}
	s.tapes = &seams.Tapes{MapOrder: r.MapOrder, PoolDflt: -1}
	seams.Install(s.tapes)
	defer seams.Uninstall()
	h := func(path string, self bool) string { return s.w.fingerprint(path, self) }
	s.impl = cache.New(h)
	ops := r.Tasks[0]
	var shape []string
	for idx, op := range ops {
		shape = append(shape, op.Kind+"!"+op.Fault+op.IOFault)
		s.hist = append(s.hist, fmt.Sprintf("%d %s %v %s %s %d %d %d", idx, op.Kind, op.Pkgs, op.Fault, op.IOFault, op.Slot, op.A, op.B))
		switch op.Kind {
		case "find", "find_unknown", "import":
			s.find(op, idx)
		case "import_nocache":
			s.importNoCache(op, idx)
		case "prepare":
			s.prepare(op, idx)
		case "bump":
			s.w.bump(op.Pkgs[0] % s.w.n)
			out.Fault("fp_change")
		case "delete_export":
			p := pkgName(op.Pkgs[0] % s.w.n)
			if e := s.entries[p]; e != nil && !e.unsure && exists(e.file) {
				os.Remove(e.file)
				out.Fault("export_deleted")
			}
		case "save":
			s.save(op, idx)
		case "load":
			s.load(op, idx, "Load")
		case "restart":
			out.Fault("crash_restart")
			s.impl = cache.New(h)
			s.entries = map[string]*mEntry{}
			s.nlist = 0
			s.load(Op{Slot: op.Slot}, idx, "restart+Load")
		case "corrupt":
			s.corrupt(op, idx)
		}
		if len(out.Violations) > 0 {
			break
		}
		s.checkDump(fmt.Sprintf("op %d %s", idx, op.Kind))
		if len(out.Violations) > 0 {
			break
		}
		s.obs = append(s.obs, strings.Join(cache.VerifDump(s.impl), ";"))
	}
	if after != nil && len(out.Violations) == 0 {
		after(s)
		out.Violations = append(s.knownSeen, out.Violations...)
	}
	out.Ops = len(ops)
	out.Steps = len(ops)
	out.HistHash = core.Hash(s.hist...)
	for i := range s.obs { // the scratch root differs from process to process
		s.obs[i] = strings.ReplaceAll(s.obs[i], root, "$ROOT")
	}
	out.ObsHash = core.Hash(s.obs...)
	out.Shape = core.Hash(shape...)
	out.Nontrivial = len(ops) >= 5 && s.stubN >= 1
	out.ProbeN("map_order_nonidentity", s.tapes.NonIdent)
	out.Sample = r.short()
	return out
}

// execSweep: crash during Save at every byte offset. For each prefix (torn write) and each
// zero-tailed variant of the saved file, a fresh cache loads it; the verdict must agree
// with the independent reading of the format, what is loaded must be records that were
// saved, and a lookup afterwards must still return current data.
func execSweep(r *Record, root string) *core.Outcome {
	out := execSeqOps(r, root, func(s *seqRun) {
		file := slotFile(root, 0)
		s.save(Op{Kind: "save"}, len(r.Tasks[0]))
		if len(s.out.Violations) > 0 || s.nlist == 0 {
			return
		}
		full, err := os.ReadFile(file)
		if err != nil {
			return
		}
		saved := map[string]string{}
		recs, _ := parseCacheFile(full)
		for _, rc := range recs {
			saved[rc.path] = rc.dumpLine()
		}
		h := func(path string, self bool) string { return s.w.fingerprint(path, self) }
		for variant := 0; variant < 2; variant++ {
			for k := 0; k <= len(full); k++ {
				var b []byte
				if variant == 0 {
					b = append([]byte{}, full[:k]...)
				} else {
					if k == len(full) {
						continue
					}
					b = append([]byte{}, full...)
					for i := k; i < len(b); i++ {
						b[i] = 0
					}
				}
				os.WriteFile(file, b, 0o644)
				s.out.Fault([]string{"torn_save", "zero_tail"}[variant])
				impl := cache.New(h)
				var lerr error
				tag := fmt.Sprintf("%s at offset %d of %d", []string{"torn save", "zero-tailed save"}[variant], k, len(full))
				func() {
					defer func() {
						if rr := recover(); rr != nil {
							s.violate("panic-load", "Load panicked on a %s: %v [file %q]", tag, rr, b)
						}
					}()
					lerr = impl.Load(file)
				}()
				if len(s.out.Violations) > 0 {
					return
				}
				precs, v := parseCacheFile(b)
				switch v {
				case wellFormed:
					if lerr != nil {
						key := "load-rejects-wellformed"
						if len(b) == 0 {
							key = "empty-save-rejected-on-load"
						}
						s.violate(key, "Load rejected a well-formed %s (%d complete records): %v", tag, len(precs), lerr)
					}
				case malformed:
					if lerr == nil {
						s.violate("malformed-accepted", "Load accepted a malformed %s: %q", tag, b)
					}
				}
				if len(s.out.Violations) > 0 {
					if s.isKnownKey(s.out.Violations[len(s.out.Violations)-1].Key) && k < len(full) {
						// keep sweeping past a known finding, remember it once
						s.knownSeen = append(s.knownSeen, s.out.Violations...)
						s.out.Violations = nil
					} else {
						return
					}
				}
				// only saved records, unaltered, may have been taken -- unless the damage
				// changed a record's text, which the cache has no means to notice; then the
				// altered record must not lead to wrong data (checked by the lookup below)
				complete := map[string]bool{}
				for _, rc := range precs {
					complete[rc.path] = true
				}
				for _, l := range cache.VerifDump(impl) {
					p := l[:strings.IndexByte(l+"\t", '\t')]
					if saved[p] == l {
						continue
					}
					if variant == 0 && v == wellFormed && !(k < len(full) && !strings.HasSuffix(string(b), "\n")) {
						s.violate("load-invented-record", "after loading a %s the cache holds %q, which was never saved (saved: %q)", tag, l, saved[p])
						return
					}
				}
				if v == wellFormed && lerr == nil {
					got := map[string]string{}
					for _, l := range cache.VerifDump(impl) {
						got[l[:strings.IndexByte(l+"\t", '\t')]] = l
					}
					for _, rc := range precs {
						if got[rc.path] != rc.dumpLine() && saved[rc.path] == rc.dumpLine() {
							// a later duplicate may override; saved files have none
							s.violate("load-lost-record", "after loading a well-formed %s the record %q is missing (cache has %q)", tag, rc.dumpLine(), got[rc.path])
							return
						}
					}
				}
				// a lookup through the damaged cache still returns current data
				if k%7 == 3 || k == len(full) {
					s.impl, s.entries, s.nlist = impl, map[string]*mEntry{}, 0
					for _, l := range cache.VerifDump(impl) {
						s.entries[l[:strings.IndexByte(l+"\t", '\t')]] = &mEntry{unsure: true}
					}
					s.find(Op{Kind: "find", Pkgs: []int{k}}, 1000+k)
					if len(s.out.Violations) > 0 {
						return
					}
					s.out.Probe("lookup_after_damaged_load")
				}
			}
		}
		s.out.Probe("sweeps_completed")
		s.out.ProbeN("sweep_offsets", 2*len(full)+1)
	})
	return out
}
