package c20

import (
	"fmt"

	"pgregory.net/rapid"
)

// Record is one complete C20 run: world, callers, faults, schedule. Nothing is left to a PRNG.
type Record struct {
	Mode        string  `json:"mode"` // "seq" | "conc"
	NPkgs       int     `json:"npkgs"`
	Deps        [][]int `json:"deps"`
	Untracked   []bool  `json:"untracked"`
	InvalidSelf []bool  `json:"invalid_self"`
	SelfSkip    []bool  `json:"self_skip,omitempty"`   // own fingerprint is "" (HashSkip): own changes are not tracked, dependencies are
	Real        bool    `json:"real_export,omitempty"` // export files are real gc export data; lookups may go through packages.Importer
	Strict      bool    `json:"strict"`                // conc: no world change between a listing and the end of its operation
	HashYield   bool    `json:"hash_yield"`            // conc: the fingerprint function is a scheduling point
	Tasks       [][]Op  `json:"tasks"`                 // caller tasks
	World       []Op    `json:"world"`                 // world task (conc)
	Sched       []int   `json:"sched"`                 // scheduler choices
	Preempt     [][]int `json:"preempt"`               // per caller: function-entry yield counts at which to yield
	MapOrder    []int   `json:"map_order"`             // tape for unordered iteration seams
}

// Op is one action of a caller or of the world.
type Op struct {
	Kind    string `json:"kind"`
	Pkgs    []int  `json:"pkgs,omitempty"`
	Fault   string `json:"fault,omitempty"` // listing fault planned for the next stub invocation
	Slot    int    `json:"slot,omitempty"`  // cache file slot
	IOFault string `json:"io_fault,omitempty"`
	A       int    `json:"a,omitempty"`
	B       int    `json:"b,omitempty"`
}

var listFaults = []string{"list_fail_stderr", "list_fail_silent", "list_fail_after_output", "list_cut_midline", "list_garbage",
	"list_missing_export", "list_extra", "list_partial"}

var corruptKinds = []string{"torn", "zero_tail", "empty_file", "line_drop", "line_dup", "byte_replace", "garbage", "count_tamper", "remove_file"}

func genWorld(rt *rapid.T, r *Record) {
	r.NPkgs = rapid.IntRange(2, maxPkgs).Draw(rt, "npkgs")
	for i := 0; i < r.NPkgs; i++ {
		var deps []int
		// dependencies point to higher indices (acyclic), like go list .Deps
		for j := i + 1; j < r.NPkgs; j++ {
			if rapid.IntRange(0, 2).Draw(rt, "dep") == 0 {
				deps = append(deps, j)
			}
		}
		if deps == nil {
			deps = []int{}
		}
		r.Deps = append(r.Deps, deps)
		r.Untracked = append(r.Untracked, rapid.IntRange(0, 5).Draw(rt, "untracked") == 0)
		inv := rapid.IntRange(0, 9).Draw(rt, "invalid") == 0
		r.InvalidSelf = append(r.InvalidSelf, inv)
		r.SelfSkip = append(r.SelfSkip, !inv && rapid.IntRange(0, 5).Draw(rt, "selfskip") == 0)
	}
}

func genPkg(rt *rapid.T, r *Record) int {
	// bias to few packages so that entries are revisited
	if rapid.IntRange(0, 2).Draw(rt, "hot") > 0 {
		return rapid.IntRange(0, min(2, r.NPkgs-1)).Draw(rt, "pkg")
	}
	return rapid.IntRange(0, r.NPkgs-1).Draw(rt, "pkg")
}

func genFault(rt *rapid.T, enabled bool) string {
	if !enabled || rapid.IntRange(0, 5).Draw(rt, "hasfault") != 0 {
		return ""
	}
	return rapid.SampledFrom(listFaults).Draw(rt, "fault")
}

// GenSeq: one caller, world changes and file faults between its calls; exact model.
func GenSeq(rt *rapid.T) *Record {
	r := &Record{Mode: "seq"}
	genWorld(rt, r)
	r.Real = rapid.IntRange(0, 3).Draw(rt, "real_export") == 0
	impFocus := r.Real && rapid.IntRange(0, 2).Draw(rt, "importer_focus") == 0
	faults := rapid.IntRange(0, 3).Draw(rt, "faulty_run") != 0 // 25% fault-free
	n := rapid.IntRange(1, 40).Draw(rt, "nops")
	var ops []Op
	for i := 0; i < n; i++ {
		k := rapid.IntRange(0, 19).Draw(rt, "opkind")
		switch {
		case k < 7:
			op := Op{Kind: "find", Pkgs: []int{genPkg(rt, r)}, Fault: genFault(rt, faults)}
			if r.Real {
				switch v := rapid.IntRange(0, 9).Draw(rt, "via"); {
				case impFocus && v < 8:
					// importer-centred record: few packages, mostly the run's long-lived importer
					op.Pkgs[0] = rapid.IntRange(0, min(3, r.NPkgs-1)).Draw(rt, "ipkg")
					op.Kind, op.A, op.B = "import_nocache", rapid.IntRange(0, 3).Draw(rt, "from_dir"), min(1, rapid.IntRange(0, 3).Draw(rt, "long_lived"))
				case v < 5:
					op.Kind, op.A = "import", v
				case v < 7:
					op.Kind, op.A, op.B = "import_nocache", rapid.IntRange(0, 3).Draw(rt, "from_dir"), rapid.IntRange(0, 1).Draw(rt, "long_lived")
				}
			}
			ops = append(ops, op)
		case k < 9:
			m := rapid.IntRange(1, 3).Draw(rt, "npre")
			var ps []int
			for j := 0; j < m; j++ {
				ps = append(ps, genPkg(rt, r))
			}
			ops = append(ops, Op{Kind: "prepare", Pkgs: ps, Fault: genFault(rt, faults)})
		case k < 13:
			ops = append(ops, Op{Kind: "bump", Pkgs: []int{genPkg(rt, r)}})
		case k < 14:
			ops = append(ops, Op{Kind: "delete_export", Pkgs: []int{genPkg(rt, r)}})
		case k < 16:
			op := Op{Kind: "save", Slot: rapid.IntRange(0, 1).Draw(rt, "slot")}
			if faults && rapid.IntRange(0, 7).Draw(rt, "iof") == 0 {
				op.IOFault = rapid.SampledFrom([]string{"enospc", "torn_then_error"}).Draw(rt, "iofk")
				op.A = rapid.IntRange(0, 1000).Draw(rt, "a")
			}
			ops = append(ops, op)
			// faults belong where there is in-flight state: damage the file that was just
			// written, then come back from it
			if faults && rapid.IntRange(0, 1).Draw(rt, "dmg") == 0 {
				ops = append(ops, Op{Kind: "corrupt", Slot: op.Slot,
					Fault: rapid.SampledFrom(corruptKinds).Draw(rt, "ck"),
					A:     rapid.IntRange(0, 4000).Draw(rt, "a"), B: rapid.IntRange(0, 255).Draw(rt, "b")})
			}
			switch rapid.IntRange(0, 2).Draw(rt, "after_save") {
			case 0:
				ops = append(ops, Op{Kind: "restart", Slot: op.Slot})
			case 1:
				ops = append(ops, Op{Kind: "load", Slot: op.Slot})
			}
		case k < 17:
			op := Op{Kind: "load", Slot: rapid.IntRange(0, 1).Draw(rt, "slot")}
			if faults && rapid.IntRange(0, 7).Draw(rt, "iof") == 0 {
				op.IOFault = "eio"
			}
			ops = append(ops, op)
		case k < 18:
			ops = append(ops, Op{Kind: "restart", Slot: rapid.IntRange(0, 1).Draw(rt, "slot")})
		case k < 19:
			if faults {
				ops = append(ops, Op{Kind: "corrupt", Slot: rapid.IntRange(0, 1).Draw(rt, "slot"),
					Fault: rapid.SampledFrom(corruptKinds).Draw(rt, "ck"),
					A:     rapid.IntRange(0, 4000).Draw(rt, "a"), B: rapid.IntRange(0, 255).Draw(rt, "b")})
			}
		default:
			ops = append(ops, Op{Kind: "find_unknown"})
		}
	}
	r.Tasks = [][]Op{ops}
	nm := rapid.IntRange(0, 6).Draw(rt, "nmo")
	for i := 0; i < nm; i++ {
		r.MapOrder = append(r.MapOrder, rapid.IntRange(0, 23).Draw(rt, "mo"))
	}
	return r
}

// GenConc: 1-3 callers sharing one cache, plus a world task, under the baton.
func GenConc(rt *rapid.T) *Record {
	r := &Record{Mode: "conc"}
	genWorld(rt, r)
	r.Strict = rapid.IntRange(0, 3).Draw(rt, "strict") != 0
	r.HashYield = rapid.Bool().Draw(rt, "hash_yield")
	r.Real = rapid.IntRange(0, 3).Draw(rt, "real_export") == 0
	faults := rapid.IntRange(0, 3).Draw(rt, "faulty_run") != 0
	nt := rapid.IntRange(1, 3).Draw(rt, "ntasks")
	for t := 0; t < nt; t++ {
		n := rapid.IntRange(1, 12).Draw(rt, "nops")
		var ops []Op
		for i := 0; i < n; i++ {
			k := rapid.IntRange(0, 9).Draw(rt, "opkind")
			switch {
			case k < 7:
				op := Op{Kind: "find", Pkgs: []int{genPkg(rt, r)}}
				if r.Real && rapid.Bool().Draw(rt, "via_importer") {
					op.Kind = "import"
				}
				ops = append(ops, op)
			case k < 8:
				ops = append(ops, Op{Kind: "save", Slot: rapid.IntRange(0, 1).Draw(rt, "slot")})
			case k < 9:
				ops = append(ops, Op{Kind: "prepare", Pkgs: []int{genPkg(rt, r), genPkg(rt, r)}})
			default:
				ops = append(ops, Op{Kind: "find_unknown"})
			}
		}
		r.Tasks = append(r.Tasks, ops)
		var pre []int
		np := rapid.IntRange(0, 4).Draw(rt, "npre")
		for i := 0; i < np; i++ {
			pre = append(pre, rapid.IntRange(1, 300).Draw(rt, "preempt"))
		}
		r.Preempt = append(r.Preempt, pre)
	}
	nw := rapid.IntRange(0, 10).Draw(rt, "nworld")
	for i := 0; i < nw; i++ {
		k := rapid.IntRange(0, 9).Draw(rt, "wkind")
		switch {
		case k < 6:
			r.World = append(r.World, Op{Kind: "bump", Pkgs: []int{genPkg(rt, r)}})
		case k < 8:
			r.World = append(r.World, Op{Kind: "delete_export", Pkgs: []int{genPkg(rt, r)}})
		default:
			if faults {
				r.World = append(r.World, Op{Kind: "plan_fault", Fault: rapid.SampledFrom(listFaults).Draw(rt, "fault")})
			}
		}
	}
	ns := rapid.IntRange(0, 60).Draw(rt, "nsched")
	for i := 0; i < ns; i++ {
		r.Sched = append(r.Sched, rapid.IntRange(0, 3).Draw(rt, "pick"))
	}
	return r
}

func (r *Record) short() map[string]any {
	var ops []string
	for t, tk := range r.Tasks {
		for _, o := range tk {
			s := fmt.Sprintf("t%d:%s%v", t, o.Kind, o.Pkgs)
			if o.Fault != "" {
				s += "!" + o.Fault
			}
			if o.IOFault != "" {
				s += "!" + o.IOFault
			}
			ops = append(ops, s)
		}
	}
	for _, o := range r.World {
		s := fmt.Sprintf("world:%s%v", o.Kind, o.Pkgs)
		if o.Fault != "" {
			s += "!" + o.Fault
		}
		ops = append(ops, s)
	}
	return map[string]any{"mode": r.Mode, "npkgs": r.NPkgs, "deps": r.Deps, "strict": r.Strict, "ops": ops, "sched": r.Sched, "preempt": r.Preempt}
}

func (r *Record) clone() *Record {
	c := *r
	c.Tasks = nil
	for _, t := range r.Tasks {
		c.Tasks = append(c.Tasks, append([]Op(nil), t...))
	}
	c.World = append([]Op(nil), r.World...)
	c.Sched = append([]int(nil), r.Sched...)
	c.Preempt = nil
	for _, p := range r.Preempt {
		c.Preempt = append(c.Preempt, append([]int(nil), p...))
	}
	c.MapOrder = append([]int(nil), r.MapOrder...)
	c.Deps = nil
	for _, d := range r.Deps {
		c.Deps = append(c.Deps, append([]int{}, d...))
	}
	c.Untracked = append([]bool(nil), r.Untracked...)
	c.InvalidSelf = append([]bool(nil), r.InvalidSelf...)
	c.SelfSkip = append([]bool(nil), r.SelfSkip...)
	return &c
}

// Simplify lists one-step simplifications, most drastic first.
func Simplify(rec any) []any {
	r := rec.(*Record)
	var out []any
	add := func(f func(c *Record)) {
		c := r.clone()
		f(c)
		out = append(out, c)
	}
	// drop a whole task (keep at least one)
	if len(r.Tasks) > 1 {
		for t := range r.Tasks {
			t := t
			add(func(c *Record) {
				c.Tasks = append(c.Tasks[:t], c.Tasks[t+1:]...)
				if t < len(c.Preempt) {
					c.Preempt = append(c.Preempt[:t], c.Preempt[t+1:]...)
				}
			})
		}
	}
	if len(r.World) > 0 {
		add(func(c *Record) { c.World = nil })
	}
	if len(r.Sched) > 0 {
		add(func(c *Record) { c.Sched = nil })
		add(func(c *Record) { c.Sched = c.Sched[:len(c.Sched)/2] })
	}
	if len(r.MapOrder) > 0 {
		add(func(c *Record) { c.MapOrder = nil })
	}
	for t := range r.Preempt {
		if len(r.Preempt[t]) > 0 {
			t := t
			add(func(c *Record) { c.Preempt[t] = nil })
		}
	}
	// drop halves, then single ops
	for t := range r.Tasks {
		t := t
		n := len(r.Tasks[t])
		if n > 3 {
			add(func(c *Record) { c.Tasks[t] = c.Tasks[t][n/2:] })
			add(func(c *Record) { c.Tasks[t] = c.Tasks[t][:n/2] })
		}
	}
	for t := range r.Tasks {
		for i := range r.Tasks[t] {
			t, i := t, i
			if len(r.Tasks[t]) > 1 || len(r.Tasks) == 1 {
				add(func(c *Record) { c.Tasks[t] = append(c.Tasks[t][:i], c.Tasks[t][i+1:]...) })
			}
		}
	}
	for i := range r.World {
		i := i
		add(func(c *Record) { c.World = append(c.World[:i], c.World[i+1:]...) })
	}
	for i := range r.Sched {
		i := i
		add(func(c *Record) { c.Sched = append(c.Sched[:i], c.Sched[i+1:]...) })
	}
	// clear faults
	for t := range r.Tasks {
		for i, o := range r.Tasks[t] {
			t, i := t, i
			if o.Fault != "" && o.Kind != "corrupt" {
				add(func(c *Record) { c.Tasks[t][i].Fault = "" })
			}
			if o.IOFault != "" {
				add(func(c *Record) { c.Tasks[t][i].IOFault = "" })
			}
		}
	}
	// simplify the world
	for i := range r.Deps {
		if len(r.Deps[i]) > 0 {
			i := i
			add(func(c *Record) { c.Deps[i] = []int{} })
		}
		if r.Untracked[i] {
			i := i
			add(func(c *Record) { c.Untracked[i] = false })
		}
		if r.InvalidSelf[i] {
			i := i
			add(func(c *Record) { c.InvalidSelf[i] = false })
		}
		if i < len(r.SelfSkip) && r.SelfSkip[i] {
			i := i
			add(func(c *Record) { c.SelfSkip[i] = false })
		}
	}
	if r.HashYield {
		add(func(c *Record) { c.HashYield = false })
	}
	// a lookup through the importer -> a plain Find
	for t := range r.Tasks {
		for i, o := range r.Tasks[t] {
			t, i := t, i
			if o.Kind == "import" {
				add(func(c *Record) { c.Tasks[t][i].Kind = "find" })
			}
		}
	}
	return out
}

// GenSweep: populate a cache, save it, then load every prefix of the saved file (and the
// file with its tail zeroed at every offset) into a fresh cache.
func GenSweep(rt *rapid.T) *Record {
	r := &Record{Mode: "sweep"}
	genWorld(rt, r)
	n := rapid.IntRange(1, 10).Draw(rt, "nops")
	var ops []Op
	for i := 0; i < n; i++ {
		k := rapid.IntRange(0, 9).Draw(rt, "opkind")
		switch {
		case k < 5:
			ops = append(ops, Op{Kind: "find", Pkgs: []int{rapid.IntRange(0, r.NPkgs-1).Draw(rt, "pkg")}})
		case k < 8:
			ops = append(ops, Op{Kind: "prepare", Pkgs: []int{rapid.IntRange(0, r.NPkgs-1).Draw(rt, "pkg"), rapid.IntRange(0, r.NPkgs-1).Draw(rt, "pkg")},
				Fault: rapid.SampledFrom([]string{"", "", "list_extra"}).Draw(rt, "fault")})
		default:
			ops = append(ops, Op{Kind: "bump", Pkgs: []int{rapid.IntRange(0, r.NPkgs-1).Draw(rt, "pkg")}})
		}
	}
	r.Tasks = [][]Op{ops}
	nm := rapid.IntRange(0, 3).Draw(rt, "nmo")
	for i := 0; i < nm; i++ {
		r.MapOrder = append(r.MapOrder, rapid.IntRange(0, 23).Draw(rt, "mo"))
	}
	return r
}
