package c20

import (
	"fmt"
	"os"
	"path/filepath"
	"strings"
	"syscall"
	"unsafe"

	cw "gogenverif/sim/c20world"
)

const maxPkgs = 8
const maxTasks = 5

// world is the simulated environment. It is touched by several tasks under the baton, so
// every access from task context goes through //go:norace functions and fixed-size arrays
// (runtime map and slice-growth helpers are race-instrumented regardless of the caller).
type world struct {
	root      string
	n         int
	ver       [maxPkgs]int
	deps      [maxPkgs][]int // immutable after setup
	untracked [maxPkgs]bool
	invalid   [maxPkgs]bool
	selfSkip  [maxPkgs]bool
	faults    [512]string // planned listing fault per invocation index
	inWindow  [maxTasks]bool
	lastCount [maxTasks]int64 // unused
	seen      int64           // stub invocations seen so far (size of stub.count)
	real      bool            // export files are real gc export data
}

func pkgName(i int) string { return fmt.Sprintf("w/p%d", i) }

func pkgIndex(name string) int {
	if len(name) == 4 && strings.HasPrefix(name, "w/p") && name[3] >= '0' && name[3] < '0'+maxPkgs {
		return int(name[3] - '0')
	}
	return -1
}

//go:norace
func (w *world) snapshot() *cw.World {
	s := &cw.World{Faults: map[int]string{}, Real: w.real}
	for i := 0; i < w.n; i++ {
		s.Pkgs = append(s.Pkgs, cw.Pkg{Name: pkgName(i), Ver: w.ver[i], Deps: w.deps[i]})
		s.Untracked = append(s.Untracked, w.untracked[i])
		s.SelfSkip = append(s.SelfSkip, w.selfSkip[i])
	}
	for i, f := range w.faults {
		if f != "" {
			s.Faults[i] = f
		}
	}
	return s
}

// rawWriteFile writes without going through package syscall's Write, whose race
// annotation (ReleaseMerge on a global) would order this task before every later reader.
//
//go:norace
func rawWriteFile(path string, data []byte) error {
	tmp := path + ".tmp"
	fd, err := syscall.Open(tmp, syscall.O_WRONLY|syscall.O_CREAT|syscall.O_TRUNC, 0o644)
	if err != nil {
		return err
	}
	for len(data) > 0 {
		n, _, e := syscall.Syscall(syscall.SYS_WRITE, uintptr(fd), uintptr(unsafe.Pointer(&data[0])), uintptr(len(data)))
		if e != 0 {
			syscall.Close(fd)
			return e
		}
		data = data[n:]
	}
	syscall.Close(fd)
	return syscall.Rename(tmp, path)
}

//go:norace
func (w *world) publish() {
	b := w.snapshot().Text()
	if err := rawWriteFile(filepath.Join(w.root, "world.txt"), b); err != nil {
		panic("harness: cannot publish world: " + err.Error())
	}
}

//go:norace
func (w *world) stubCount() int64 {
	var st syscall.Stat_t
	if err := syscall.Stat(filepath.Join(w.root, "stub.count"), &st); err != nil {
		return 0
	}
	return st.Size
}

//go:norace
func (w *world) stateID(i int) string { return cw.StateID(w.snapshot(), i) }

//go:norace
func (w *world) fingerprint(name string, self bool) string {
	i := pkgIndex(name)
	if i < 0 || i >= w.n {
		return "fp-unknown-" + name
	}
	if self && w.invalid[i] {
		return "?"
	}
	if self && w.selfSkip[i] {
		return ""
	}
	if !self && w.untracked[i] {
		return ""
	}
	return cw.Fingerprint(name, w.ver[i], self)
}

//go:norace
func (w *world) anyInWindow() bool {
	for _, b := range w.inWindow {
		if b {
			return true
		}
	}
	return false
}

//go:norace
func (w *world) setWindow(t int, v bool) { w.inWindow[t] = v }

//go:norace
func (w *world) bump(i int) { w.ver[i]++; w.publish() }

//go:norace
func (w *world) planFault(kind string) int {
	n := int(w.stubCount())
	if n < len(w.faults) {
		w.faults[n] = kind
		w.publish()
	}
	return n
}

func readStubLog(root string) ([]cw.LogLine, error) {
	b, err := os.ReadFile(filepath.Join(root, "stub.log"))
	if err != nil {
		if os.IsNotExist(err) {
			return nil, nil
		}
		return nil, err
	}
	var out []cw.LogLine
	for _, l := range strings.Split(strings.TrimRight(string(b), "\n"), "\n") {
		if l == "" {
			continue
		}
		ll, err := cw.ParseLog(l)
		if err != nil {
			return nil, err
		}
		out = append(out, ll)
	}
	return out, nil
}
