package c20

import (
	"fmt"
	"go/constant"
	"go/types"
	"regexp"

	"github.com/goplus/gogen/packages"
)

// Importer integration (packages/imp.go: lookup, findExport). In records with Real set the
// stub writes real gc export data for `package pN; const Ident = "<build identity>"`, so a
// lookup can be driven the way gogen's clients drive it: a packages.Importer whose cache is
// the cache under test, asked to Import the path. What the caller observes is the imported
// package; its Ident constant is the build identity the export data was compiled for.

var identRE = regexp.MustCompile(`w/p[0-9]@([0-9]+|\*)\[[^\]\x00-\x1f"]*\](\+B)?`)

// identOf extracts the build identity from what Find returned. In plain records the file
// content is the identity; in real records it is an archive that contains the constant's
// value verbatim (checked by the harness self-test in imp_test.go).
//
//go:norace
func identOf(real bool, content string) string {
	if !real {
		return content
	}
	m := identRE.FindAllString(content, -1)
	if len(m) == 0 {
		return "<no identity in export data>"
	}
	for _, x := range m[1:] {
		if x != m[0] {
			return "<several identities in export data: " + m[0] + " " + x + ">"
		}
	}
	return m[0]
}

// importVia performs the lookup through a fresh packages.Importer. c == nil: the importer has
// no cache and lists the package itself on every import.
func importVia(c packages.Cache, dir, path string, from bool) (ident string, err error) {
	imp := packages.NewImporter(nil, dir)
	if c != nil {
		imp.SetCache(c)
	}
	return importWith(imp, dir, path, from)
}

// importWith imports path through imp: Import (the importer's working directory) or
// ImportFrom(path, dir).
func importWith(imp *packages.Importer, dir, path string, from bool) (ident string, err error) {
	var pkg *types.Package
	if from {
		pkg, err = imp.ImportFrom(path, dir, 0)
	} else {
		pkg, err = imp.Import(path)
	}
	if err != nil {
		return "", err
	}
	if pkg == nil {
		return "<nil package>", nil
	}
	if pkg.Path() != path {
		return fmt.Sprintf("<package %s imported for %s>", pkg.Path(), path), nil
	}
	k, _ := pkg.Scope().Lookup("Ident").(*types.Const)
	if k == nil || k.Val().Kind() != constant.String {
		return "<imported package has no Ident>", nil
	}
	// a second import through the same importer answers from the importer's own table
	// ("two calls with the same path must return the same package")
	if again, err2 := imp.Import(path); err2 != nil || again != pkg {
		return fmt.Sprintf("<second Import returned %v, %v>", again, err2), nil
	}
	return constant.StringVal(k.Val()), nil
}
