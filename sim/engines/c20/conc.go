package c20

import (
	"fmt"
	"io"
	"os"
	"path/filepath"
	"sort"
	"strings"
	"time"

	"github.com/anishathalye/porcupine"
	"github.com/goplus/gogen/packages/cache"
	"github.com/goplus/gogen/verifhook"

	"gogenverif/sim/baton"
	cw "gogenverif/sim/c20world"
	"gogenverif/sim/core"
	"gogenverif/sim/seams"
)

type event struct {
	Seq     uint64
	Task    int
	Kind    string // invoke return hash list world skip
	Op      int
	OpKind  string
	Path    string
	Self    bool
	Result  string
	StubN   int
	Content string
	Err     bool
	WKind   string
	WPkg    int
	File    string
	Via     string
}

type tctx struct {
	id      int
	t       *baton.Task
	log     []event
	preempt []int
}

type concRun struct {
	r     *Record
	w     *world
	s     *baton.Sched
	impl  *cache.Impl
	tasks []*tctx // callers then world
	out   *core.Outcome
}

//go:norace
func (c *concRun) logEv(tc *tctx, e event) {
	e.Seq = c.s.Seq()
	e.Task = tc.id
	tc.log = append(tc.log, e)
}

// poll notices stub invocations that happened since the last look; they belong to the
// task that holds the baton.
//
//go:norace
func (c *concRun) poll(tc *tctx) {
	cnt := c.w.stubCount()
	for n := c.w.seen; n < cnt; n++ {
		c.logEv(tc, event{Kind: "list", StubN: int(n)})
		c.w.setWindow(tc.id, true)
	}
	c.w.seen = cnt
}

//go:norace
func (c *concRun) current() *tctx {
	t := c.s.Running()
	if t == nil {
		return nil
	}
	return c.tasks[t.ID]
}

//go:norace
func (c *concRun) pkgHash(path string, self bool) string {
	tc := c.current()
	if tc == nil {
		return c.w.fingerprint(path, self)
	}
	c.poll(tc)
	if c.r.HashYield {
		tc.t.Yield()
	}
	res := c.w.fingerprint(path, self)
	c.logEv(tc, event{Kind: "hash", Path: path, Self: self, Result: res})
	return res
}

//go:norace
func (c *concRun) yieldHook(id int) {
	tc := c.current()
	if tc == nil || tc.id >= len(c.r.Tasks) {
		return
	}
	c.poll(tc)
	n := tc.t.IncFine()
	for _, p := range tc.preempt {
		if p == n {
			tc.t.Yield()
			return
		}
	}
}

// blockHook: a caller found a lock of the cache taken by a parked caller.
//
//go:norace
func (c *concRun) blockHook() {
	if tc := c.current(); tc != nil {
		c.poll(tc)
		tc.t.BlockYield()
	}
}

//go:norace
func (c *concRun) caller(tc *tctx, ops []Op) {
	dir := filepath.Join(c.w.root, "work")
	for idx, op := range ops {
		tc.t.Yield()
		switch op.Kind {
		case "import":
			// a lookup as clients perform it: every caller has a packages.Importer of its own,
			// all of them backed by the shared cache; the oracle treats it as a Find
			path := pkgName(op.Pkgs[0] % c.w.n)
			c.logEv(tc, event{Kind: "invoke", Op: idx, OpKind: "find", Path: path})
			content, err := importVia(c.impl, dir, path, idx%2 == 1)
			c.poll(tc)
			c.w.setWindow(tc.id, false)
			c.logEv(tc, event{Kind: "return", Op: idx, OpKind: "find", Path: path, Content: content, Err: err != nil, Via: "import"})
		case "find", "find_unknown":
			path := "w/zz"
			if op.Kind == "find" {
				path = pkgName(op.Pkgs[0] % c.w.n)
			}
			c.logEv(tc, event{Kind: "invoke", Op: idx, OpKind: op.Kind, Path: path})
			f, err := c.impl.Find(dir, path)
			content := ""
			if err == nil {
				content = identOf(c.w.real, readAllNR(f))
			}
			c.poll(tc)
			c.w.setWindow(tc.id, false)
			c.logEv(tc, event{Kind: "return", Op: idx, OpKind: op.Kind, Path: path, Content: content, Err: err != nil})
		case "save":
			// saving while others look up: Save ranges the map and reads the counter, both
			// safe for concurrent use; what it writes must be loadable
			file := slotFile(c.w.root, op.Slot) + fmt.Sprintf(".t%d", tc.id)
			c.logEv(tc, event{Kind: "invoke", Op: idx, OpKind: op.Kind, Path: file})
			err := c.impl.Save(file)
			c.logEv(tc, event{Kind: "return", Op: idx, OpKind: op.Kind, Err: err != nil, File: file})
		case "prepare":
			var paths []string
			for _, p := range op.Pkgs {
				paths = append(paths, pkgName(p%c.w.n))
			}
			c.logEv(tc, event{Kind: "invoke", Op: idx, OpKind: op.Kind, Path: strings.Join(paths, ",")})
			err := c.impl.Prepare(dir, paths...)
			c.poll(tc)
			c.w.setWindow(tc.id, false)
			c.logEv(tc, event{Kind: "return", Op: idx, OpKind: op.Kind, Err: err != nil})
		}
	}
}

//go:norace
func readAllNR(f io.ReadCloser) string { return readAll(f) }

//go:norace
func (c *concRun) worldTask(tc *tctx, ops []Op) {
	for idx := 0; idx < len(ops); idx++ {
		op := ops[idx]
		tc.t.Yield()
		if c.r.Strict {
			tries := 0
			for c.w.anyInWindow() && tries < 50 {
				c.logEv(tc, event{Kind: "skip", Op: idx})
				tries++
				tc.t.Yield()
			}
			if c.w.anyInWindow() {
				continue
			}
		}
		switch op.Kind {
		case "bump":
			i := op.Pkgs[0] % c.w.n
			c.w.bump(i)
			c.logEv(tc, event{Kind: "world", WKind: "bump", WPkg: i, Op: idx})
		case "delete_export":
			i := op.Pkgs[0] % c.w.n
			f := cw.FileOf(c.w.root, c.w.stateID(i))
			if err := os.Remove(f); err == nil {
				c.logEv(tc, event{Kind: "world", WKind: "delete", WPkg: i, File: f, Op: idx})
			}
		case "plan_fault":
			n := c.w.planFault(op.Fault)
			c.logEv(tc, event{Kind: "world", WKind: "plan_fault", StubN: n, Op: idx})
		}
	}
}

func execConc(r *Record, root string) *core.Outcome {
	out := &core.Outcome{}
	resetRoot(root)
	c := &concRun{r: r, w: newWorld(root, r), out: out}
	tapes := &seams.Tapes{MapOrder: r.MapOrder, PoolDflt: -1}
	seams.Install(tapes)
	defer seams.Uninstall()
	c.s = baton.New()
	c.s.MaxSteps = 20000
	c.impl = cache.New(c.pkgHash)
	for i, ops := range r.Tasks {
		tc := &tctx{id: i}
		if i < len(r.Preempt) {
			tc.preempt = r.Preempt[i]
		}
		ops := ops
		tc.t = c.s.Go(func(t *baton.Task) { c.caller(tc, ops) })
		c.tasks = append(c.tasks, tc)
	}
	wt := &tctx{id: len(r.Tasks)}
	wt.t = c.s.Go(func(t *baton.Task) { c.worldTask(wt, r.World) })
	c.tasks = append(c.tasks, wt)
	verifhook.YieldHook = c.yieldHook
	verifhook.BlockHook = c.blockHook
	defer func() { verifhook.BlockHook = nil }()
	sched := r.Sched
	c.s.Pick = func(step int, runnable []int, last int) int {
		if step < len(sched) {
			return runnable[sched[step]%len(runnable)]
		}
		// tape exhausted: keep running the same task, else the lowest id
		for _, x := range runnable {
			if x == last {
				return x
			}
		}
		return runnable[0]
	}
	c.s.Run()
	verifhook.YieldHook = nil

	// ---- post-hoc oracles over the merged history
	var hist []event
	nops := 0
	for _, tc := range c.tasks {
		hist = append(hist, tc.log...)
		if tc.t.Panic != nil {
			out.Violate(P, "panic-concurrent", fmt.Sprintf("task %d panicked: %v\n%s", tc.id, tc.t.Panic, tc.t.Stack))
		}
	}
	sort.Slice(hist, func(i, j int) bool { return hist[i].Seq < hist[j].Seq })
	for _, e := range hist {
		if e.Via == "import" {
			out.Probe("lookup_through_importer")
		}
	}
	stub, err := readStubLog(root)
	if err != nil {
		panic(err)
	}
	var hh, oh []string
	for _, e := range hist {
		switch e.Kind {
		case "invoke":
			nops++
			hh = append(hh, fmt.Sprintf("%d inv %s %s", e.Task, e.OpKind, e.Path))
		case "return":
			oh = append(oh, fmt.Sprintf("%d ret %q %v", e.Task, e.Content, e.Err))
		case "world":
			hh = append(hh, fmt.Sprintf("world %s %d", e.WKind, e.WPkg))
		case "list":
			oh = append(oh, fmt.Sprintf("%d list %d", e.Task, e.StubN))
		}
	}
	out.Ops = nops
	out.Steps = c.s.Steps
	trace := make([]string, len(c.s.Trace))
	for i, x := range c.s.Trace {
		trace[i] = fmt.Sprint(x)
	}
	out.Sched = core.Hash(trace...)
	out.HistHash = core.Hash(hh...)
	out.ObsHash = core.Hash(oh...)
	if c.s.Capped {
		out.Inconclusive = "step_cap"
		return out
	}
	for _, ll := range stub {
		if ll.Fault != "" {
			out.Fault(ll.Fault)
		}
	}
	switches := 0
	for i := 1; i < len(c.s.Trace); i++ {
		if c.s.Trace[i] != c.s.Trace[i-1] {
			switches++
		}
	}
	out.ProbeN("task_switches", switches)
	out.ProbeN("yields_on_taken_lock", c.s.Blocks)
	var shape []string
	for _, tk := range r.Tasks {
		for _, o := range tk {
			shape = append(shape, o.Kind)
		}
		shape = append(shape, "|")
	}
	for _, o := range r.World {
		shape = append(shape, o.Kind+o.Fault)
	}
	out.Shape = core.Hash(append(shape, out.Sched)...)
	out.Nontrivial = nops >= 3 && switches >= 2 && len(stub) >= 1
	out.Sample = r.short()
	if len(out.Violations) > 0 {
		return out
	}
	if n := c.impl.ListTimes(); n != len(stub) {
		out.Violate(P, "listtimes", fmt.Sprintf("ListTimes()=%d after the run, the listing command ran %d times", n, len(stub)))
		return out
	}
	c.oracle(hist, stub)
	return out
}

// worldAt replays world events and answers the build identity of a package at every
// instant of an interval.
type wstate struct {
	seq   uint64
	ver   [maxPkgs]int
	files map[string]bool // deleted export files (true = deleted at this point)
}

func (c *concRun) oracle(hist []event, stub []cw.LogLine) {
	out := c.out
	r := c.r
	// world timeline
	init := &world{n: r.NPkgs}
	for i := 0; i < r.NPkgs; i++ {
		init.ver[i] = 1
		init.deps[i] = r.Deps[i]
		init.untracked[i] = r.Untracked[i]
		if i < len(r.SelfSkip) {
			init.selfSkip[i] = r.SelfSkip[i]
		}
	}
	type wpoint struct {
		seq uint64
		ver [maxPkgs]int
	}
	points := []wpoint{{0, init.ver}}
	curv := init.ver
	type wev struct {
		seq  uint64
		kind string
		pkg  int
		file string
	}
	var wevs []wev
	for _, e := range hist {
		if e.Kind == "world" {
			wevs = append(wevs, wev{e.Seq, e.WKind, e.WPkg, e.File})
			if e.WKind == "bump" {
				curv[e.WPkg]++
				points = append(points, wpoint{e.Seq, curv})
				out.Fault("fp_change")
			} else if e.WKind == "delete" {
				out.Fault("export_deleted")
			}
		}
	}
	stateAt := func(ver [maxPkgs]int, p int) string {
		tmp := *init
		tmp.ver = ver
		return tmp.stateID(p)
	}
	// states of p during [a,b]
	statesIn := func(p int, a, b uint64) map[string]bool {
		m := map[string]bool{}
		for i, pt := range points {
			next := ^uint64(0)
			if i+1 < len(points) {
				next = points[i+1].seq
			}
			if pt.seq <= b && next > a {
				m[stateAt(pt.ver, p)] = true
			}
		}
		return m
	}
	// affects: does a world event invalidate an entry of p?
	affects := func(p int, w wev) bool {
		switch w.kind {
		case "bump":
			if w.pkg == p {
				return !(p < len(r.SelfSkip) && r.SelfSkip[p])
			}
			for _, d := range r.Deps[p] {
				if d == w.pkg && !r.Untracked[d] {
					return true
				}
			}
		case "delete":
			return w.pkg == p
		}
		return false
	}
	// operations
	type opRec struct {
		task         int
		kind, path   string
		inv, ret     uint64
		content      string
		err          bool
		lists        []int
		listSeqs     []uint64
		hashAfterInv bool
		selfHashed   map[string]bool // packages whose own fingerprint this call asked for
	}
	var ops []*opRec
	open := map[int]*opRec{}
	for _, e := range hist {
		switch e.Kind {
		case "invoke":
			o := &opRec{task: e.Task, kind: e.OpKind, path: e.Path, inv: e.Seq}
			open[e.Task] = o
			ops = append(ops, o)
		case "hash":
			if o := open[e.Task]; o != nil && e.Self {
				if o.selfHashed == nil {
					o.selfHashed = map[string]bool{}
				}
				o.selfHashed[e.Path] = true
			}
		case "list":
			if o := open[e.Task]; o != nil {
				o.lists = append(o.lists, e.StubN)
				o.listSeqs = append(o.listSeqs, e.Seq)
			} else {
				out.Violate(P, "listing-outside-operation", fmt.Sprintf("stub invocation %d attributed to task %d outside any call", e.StubN, e.Task))
				return
			}
		case "return":
			if o := open[e.Task]; o != nil {
				o.ret, o.content, o.err = e.Seq, e.Content, e.Err
				delete(open, e.Task)
			}
		}
	}
	// recordings of each package: (listing seq, end seq of the recording operation)
	type recording struct {
		start, end uint64
		garbage    bool
	}
	recs := map[string][]recording{}
	for _, o := range ops {
		for k, n := range o.lists {
			if n >= len(stub) {
				continue
			}
			ll := stub[n]
			if ll.OK || ll.Lenient {
				for _, p := range ll.Printed {
					recs[p.Name] = append(recs[p.Name], recording{o.listSeqs[k], o.ret, !ll.OK})
				}
			}
		}
	}
	windowStale := 0
	for _, o := range ops {
		if o.ret == 0 {
			continue
		}
		tag := fmt.Sprintf("task %d %s(%s) [seq %d..%d]", o.task, kindName(o.kind), o.path, o.inv, o.ret)
		if len(o.lists) > 1 {
			out.Observe("multiple_listings_in_one_call")
		}
		faulty := false
		for _, n := range o.lists {
			if n < len(stub) && (!stub[n].OK || stub[n].Fault != "") {
				faulty = true
			}
		}
		switch o.kind {
		case "save":
			if o.err {
				out.Violate(P, "save-error", tag+": Save failed")
				return
			}
			if b, err := os.ReadFile(o.path); err == nil {
				if _, v := parseCacheFile(b); v == malformed {
					out.Violate(P, "save-malformed", fmt.Sprintf("%s (concurrent with lookups) wrote a file that is not of the documented format: %q", tag, b))
					return
				}
				out.Probe("concurrent_save_checked")
			}
		case "prepare":
			if len(o.lists) != 1 {
				out.Violate(P, "prepare-list-count", fmt.Sprintf("%s ran the listing command %d times", tag, len(o.lists)))
				return
			}
			if o.err && !faulty {
				out.Violate(P, "prepare-error-on-good-listing", tag+": listing succeeded, error returned")
				return
			}
		case "find_unknown":
			if !o.err {
				out.Violate(P, "unknown-package-served", fmt.Sprintf("%s served %q", tag, o.content))
				return
			}
		case "find":
			p := pkgIndex(o.path)
			if o.err {
				legit := faulty
				if !r.Strict {
					for _, w := range wevs {
						if w.seq >= o.inv && w.seq <= o.ret {
							legit = true
						}
					}
				}
				if !legit {
					out.Violate(P, "spurious-error", tag+": error returned although no listing of this call failed and no export file was missing")
					return
				}
				out.Probe("find_error_under_fault")
				continue
			}
			// by the letter, in every configuration: data is served from an entry only after
			// comparing the package's fingerprint with the recorded one - a lookup that ran no
			// listing and never asked for the fingerprint served somebody's recording unchecked
			// (a recording that may be older than a change that preceded this call)
			if len(o.lists) == 0 && !o.selfHashed[o.path] {
				out.Violate(P, "served-without-validation", fmt.Sprintf("%s returned %q without running the listing command and without asking for the fingerprint of %s during the call", tag, o.content, o.path))
				return
			}
			if r.Strict {
				st := statesIn(p, o.inv, o.ret)
				if !st[o.content] {
					var ks []string
					for k := range st {
						ks = append(ks, k)
					}
					sort.Strings(ks)
					key := "stale-data-concurrent"
					if faulty {
						key = "stale-after-failed-list"
					}
					out.Violate(P, key, fmt.Sprintf("%s returned %q; during the call the package was %v (listings by this call: %v)", tag, o.content, ks, o.lists))
					return
				}
				out.Probe("ground_truth_checked")
				// served without re-listing: the latest recording of p completed before the
				// call, nobody re-recorded it meanwhile and nothing it depends on moved since
				if len(o.lists) > 0 && !r.InvalidSelf[p] {
					var last *recording
					clean := true
					for i := range recs[o.path] {
						rc := recs[o.path][i]
						if rc.end != 0 && rc.end < o.inv {
							if last == nil || rc.start > last.start {
								last = &recs[o.path][i]
							}
						} else if rc.start <= o.ret {
							clean = false // a recording overlaps the call
						}
					}
					if last != nil && clean && !last.garbage {
						moved := false
						for _, w := range wevs {
							if w.seq > last.start && w.seq <= o.ret && affects(p, w) {
								moved = true
							}
						}
						// an entry recorded from a listing that named a missing export is invalid
						if !moved {
							missing := false
							for _, o2 := range ops {
								for k, n := range o2.lists {
									if o2.listSeqs[k] == last.start && n < len(stub) && stub[n].Fault == "list_missing_export" {
										missing = true
									}
								}
							}
							if !missing {
								out.Violate(P, "needless-relist", fmt.Sprintf("%s re-listed although the entry recorded at seq %d was still valid (nothing it depends on changed)", tag, last.start))
								return
							}
						}
					}
				}
				if len(o.lists) == 0 {
					out.Probe("served_without_listing")
				}
			} else {
				// window configuration: fingerprints may be taken after the listing; data
				// older than the call is possible by design of the interface and is counted
				st := statesIn(p, o.inv, o.ret)
				if !st[o.content] {
					windowStale++
				}
			}
		}
	}
	if windowStale > 0 {
		out.Observations = map[string]int{"toctou_window_stale": windowStale}
	}
	// porcupine cross-check of strict histories: Find is a read of the package's build
	// identity, world changes are instantaneous writes.
	if r.Strict && len(ops) <= 64 {
		type in struct {
			write bool
			pkg   int
			ver   [maxPkgs]int
		}
		var pops []porcupine.Operation
		for _, pt := range points[1:] {
			pops = append(pops, porcupine.Operation{ClientId: maxTasks, Input: in{write: true, ver: pt.ver}, Call: int64(pt.seq), Output: "", Return: int64(pt.seq)})
		}
		for _, o := range ops {
			if o.kind == "find" && !o.err && o.ret != 0 {
				pops = append(pops, porcupine.Operation{ClientId: o.task, Input: in{pkg: pkgIndex(o.path)}, Call: int64(o.inv), Output: o.content, Return: int64(o.ret)})
			}
		}
		model := porcupine.Model{
			Init: func() interface{} { return init.ver },
			Step: func(state, input, output interface{}) (bool, interface{}) {
				i := input.(in)
				if i.write {
					return true, i.ver
				}
				return stateAt(state.([maxPkgs]int), i.pkg) == output.(string), state
			},
			Equal: func(a, b interface{}) bool { return a.([maxPkgs]int) == b.([maxPkgs]int) },
		}
		switch porcupine.CheckOperationsTimeout(model, pops, 10*time.Second) {
		case porcupine.Illegal:
			out.Violate(P, "not-linearizable", "porcupine: the history of lookups and world changes has no linearization in which every lookup returns the package's current build identity")
		case porcupine.Unknown:
			out.Inconclusive = "porcupine_timeout"
		default:
			out.Probe("porcupine_ok")
		}
	}
}

func kindName(k string) string {
	switch k {
	case "find", "find_unknown":
		return "Find"
	case "save":
		return "Save"
	}
	return "Prepare"
}
