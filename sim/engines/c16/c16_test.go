package c16

import (
	"fmt"
	"go/types"
	"os"
	"regexp"
	"strings"
	"testing"

	"pgregory.net/rapid"

	"github.com/goplus/gogen"

	"gogenverif/sim/core"
	"gogenverif/sim/gencommon"
	"gogenverif/sim/minicl"
	"gogenverif/sim/prog"
	"gogenverif/sim/run"
)

const P = "C16"

type Record struct {
	Prog  *prog.Program `json:"program"`
	Front *run.Front    `json:"front"`
}

var env *run.Env

func TestMain(m *testing.M) {
	var err error
	env, err = run.NewEnv(true)
	if err != nil {
		fmt.Fprintln(os.Stderr, "c16:", err)
		os.Exit(2)
	}
	m.Run()
	os.Exit(core.ExitCode())
}

func gen(rt *rapid.T) any {
	r := &Record{}
	r.Prog = gencommon.Program(rt, gencommon.ProgramSpec{CorpusShare: 3, Lib: 3, MaxXGo: 2, Budget: 120, MaxDepth: 8, MaxDecls: 6}, env.Paths)
	r.Front = gencommon.Front(rt, gencommon.FrontSpec{Faults: []string{"discard_ref", "abort_stmt", "abort_init", "abort_endinit", "abort_return", "callex_err", "abort_header", "discard_reset"}, MaxFaults: 4, Constructs: []string{"vblock", "inline_closure", "bigint_op", "unit_lit", "unsafe_ref", "bti_call"}, FileAssign: true, HandlerFlip: true})
	return r
}

// ---------------------------------------------------------------------------
// The reference model: a stack of open constructs and the expected operand-stack depth.
// Arities are the documented ones (API comments and the repository's tests), not derived
// from the implementation.

type frame struct {
	kind   string
	base   int // operand-stack length when the construct was opened
	scope  *types.Scope
	fn     *gogen.Func
	vblock bool
	file   string
	labels map[string]*gogen.Label
	nres   int // inline closure: number of results pushed on End
	nargs  int
}

type model struct {
	c          *minicl.Compiler
	cb         func() *gogen.CodeBuilder
	depth      int
	frames     []frame
	unknown    bool // between an abort and its recovery call nothing is asserted
	viol       string
	key        string
	nops       int
	maxNest    int
	kinds      map[string]int
	nested     []snapshot
	labelNames []string
	out        *core.Outcome

	// captured before the operation
	preScope  *types.Scope
	preFn     *gogen.Func
	preVBlock bool
	preFile   string
	preLen    int
	preLabels map[string]*gogen.Label

	afterFailedEndInit bool
}

type snapshot struct {
	len    int
	scope  *types.Scope
	fn     *gogen.Func
	vblock bool
	file   string
	frames int
	depth  int
}

func (m *model) fail(key, format string, a ...any) {
	if m.viol == "" {
		m.key = key
		m.viol = fmt.Sprintf("operation #%d: ", m.nops) + fmt.Sprintf(format, a...) + " [open constructs: " + m.stackString() + "]"
	}
}

func (m *model) stackString() string {
	var s []string
	for _, f := range m.frames {
		s = append(s, fmt.Sprintf("%s@%d", f.kind, f.base))
	}
	return strings.Join(s, " > ")
}

func (m *model) curFile() string {
	if f := m.c.Pkg.CurFile(); f != nil {
		return f.Name()
	}
	return ""
}

func (m *model) before(op string) {
	if m.c.Pkg == nil {
		return
	}
	cb := m.c.Pkg.CB()
	m.preScope, m.preFn, m.preVBlock, m.preFile, m.preLen = cb.Scope(), cb.Func(), cb.InVBlock(), m.curFile(), cb.InternalStack().Len()
}

func (m *model) base() int {
	for i := len(m.frames) - 1; i >= 0; i-- {
		return m.frames[i].base
	}
	return 0
}

// blockBase is the base of the innermost block-forming construct (not an initialiser).
func (m *model) blockBase() int {
	for i := len(m.frames) - 1; i >= 0; i-- {
		if m.frames[i].kind != "init" {
			return m.frames[i].base
		}
	}
	return 0
}

func (m *model) open(kind string) {
	f := frame{kind: kind, base: m.depth, scope: m.preScope, fn: m.preFn, vblock: m.preVBlock, file: m.preFile}
	if kind == "vblock" {
		f.base = m.base()
	}
	if kind == "closure" || kind == "func" || kind == "inline" {
		f.labels = map[string]*gogen.Label{}
		if m.preFn != nil || len(m.frames) > 0 {
			// label answers of the enclosing function, asked before the body opened
			for n, l := range m.preLabels {
				f.labels[n] = l
			}
		}
	}
	m.frames = append(m.frames, f)
	if len(m.frames) > m.maxNest {
		m.maxNest = len(m.frames)
	}
	m.kinds[kind]++
}

func (m *model) top() *frame {
	if len(m.frames) == 0 {
		return nil
	}
	return &m.frames[len(m.frames)-1]
}

func (m *model) stmtDone(op string) {
	if m.depth != m.base() {
		m.fail("stmt-not-at-base", "after %s (a completed statement) the model stack depth is %d, the enclosing construct's base is %d", op, m.depth, m.base())
	}
}

func (m *model) after(op string, a, b int) {
	if m.viol != "" || m.c.Pkg == nil {
		return
	}
	m.nops++
	cb := m.c.Pkg.CB()
	switch {
	case strings.HasPrefix(op, "Open:"):
		kind := strings.TrimPrefix(op, "Open:")
		then := strings.HasSuffix(kind, "+then")
		kind = strings.TrimSuffix(kind, "+then")
		m.open(kind)
		_ = then
	default:
		switch op {
		case "Val", "VarVal", "Typ", "None", "ZeroLit", "VarRef":
			m.depth++
		case "UnaryOp", "CompareNil", "MemberVal", "MemberRef", "Star", "Elem", "ElemRef", "TypeAssert", "NewVar", "NewClosure":
		case "BinaryOp":
			m.depth--
		case "Call", "CallWithEx!err", "Index", "IndexRef", "Return", "Discard", "Slice":
			m.depth -= a
		case "Lit":
			m.depth -= a - 1
		case "Assign":
			m.depth -= a + b
		case "AssignOp", "Send":
			m.depth -= 2
		case "IncDec", "Defer", "Go":
			m.depth--
		case "EndStmt":
			if !m.unknown {
				if d := m.depth - m.base(); d != 0 && d != 1 {
					m.fail("model:endstmt", "front end issued EndStmt with %d operands above the base", d)
				}
			}
			m.depth = m.base()
		case "ResetStmt":
			m.depth = m.blockBase()
			if m.unknown {
				// the documented recovery: the stack is back at the innermost block's base
				m.unknown = false
				for len(m.frames) > 0 && m.top().kind == "init" {
					// an initialiser whose EndInit failed has been closed by EndInit itself
					// (ResetInit is for initialisers that never reached EndInit): either way
					// the value-declaration context is the outer one again
					fr := *m.top()
					m.frames = m.frames[:len(m.frames)-1]
					m.closeCheck(cb, fr, "recovery after a failed initialiser")
				}
			}
		case "ResetInit":
			if m.afterFailedEndInit {
				// the initialiser frame was already closed by the failing EndInit
				m.afterFailedEndInit = false
				return
			}
			if t := m.top(); t != nil && t.kind == "init" {
				m.frames = m.frames[:len(m.frames)-1]
			}
			return // depth is only defined again after ResetStmt
		case "InitStart":
			m.open("init")
		case "EndInit":
			t := m.top()
			if t == nil || t.kind != "init" {
				m.fail("model:endinit", "EndInit without an open initialiser")
				return
			}
			m.depth -= a
			if !m.unknown && m.depth != t.base {
				m.fail("init-arity", "EndInit(%d) leaves the model stack at %d, the initialiser was opened at %d", a, m.depth, t.base)
			}
			m.closeCheck(cb, *t, "EndInit")
			m.depth = t.base
			m.frames = m.frames[:len(m.frames)-1]
		case "Return!short":
			// nothing was pushed, nothing may be popped: the statement is complete at the base
			m.stmtDone("Return with missing operands")
		case "EndInit!fail":
			// EndInit reported an error: its deferred cleanup has popped the operands and
			// ended the initialiser context all the same
			t := m.top()
			if t == nil || t.kind != "init" {
				m.fail("model:endinit", "failed EndInit without an open initialiser")
				return
			}
			fr := *t
			m.frames = m.frames[:len(m.frames)-1]
			m.depth = fr.base
			if got := cb.InternalStack().Len(); got != m.depth {
				m.fail("failed-endinit-leaves-operands", "EndInit reported an error and left %d elements on the operand stack, the initialiser was opened at %d", got, m.depth)
				return
			}
			m.closeCheck(cb, fr, "EndInit that reported an error")
			m.out.Probe("failed_endinit_checked")
			m.afterFailedEndInit = true
			return
		case "Then", "TypeAssertThen", "RangeAssignThen":
			t := m.top()
			if t == nil {
				m.fail("model:then", "%s without an open construct", op)
				return
			}
			m.depth = t.base
		case "Else", "Post":
			m.stmtDone(op)
		case "Label", "Goto", "Break", "Continue", "Fallthrough":
			m.stmtDone(op)
		case "End":
			t := m.top()
			if t == nil {
				m.fail("model:end", "End without an open construct")
				return
			}
			fr := *t
			m.frames = m.frames[:len(m.frames)-1]
			m.depth = fr.base
			switch fr.kind {
			case "closure":
				m.depth++
			case "inline":
				m.depth += fr.nres
			}
			m.unknown = false
			m.closeCheck(cb, fr, "End of "+fr.kind)
		case "Abort":
			m.unknown = true
			return
		case "InlineStart":
			// the arguments are consumed into parameter variables when the body opens;
			// End pushes the results
			m.depth -= a
			m.open("inline")
			m.top().nargs, m.top().nres = a, b
		default:
			m.fail("model:unknown-op", "operation %q has no entry in the arity table", op)
			return
		}
	}
	if m.unknown {
		return
	}
	if got := cb.InternalStack().Len(); got != m.depth {
		m.fail("stack-arity", "after %s the operand stack holds %d elements, the documented arities give %d", op, got, m.depth)
		return
	}
	switch op {
	case "EndStmt", "Assign", "AssignOp", "IncDec", "Send", "Defer", "Go", "Return", "ResetStmt":
		if op == "Assign" {
			return // completed by the EndStmt that follows
		}
		if m.depth != m.base() && !(m.top() != nil && m.top().kind == "init") {
			m.fail("stmt-not-at-base", "after %s the operand stack holds %d elements, the enclosing construct's base is %d", op, m.depth, m.base())
		}
	}
}

// closeCheck: closing a construct restores what was active when it was opened.
func (m *model) closeCheck(cb *gogen.CodeBuilder, fr frame, what string) {
	if m.viol != "" {
		return
	}
	if cb.Scope() != fr.scope {
		m.fail("scope-not-restored", "%s: Scope() is not the scope that was current when the construct was opened", what)
		return
	}
	if cb.Func() != fr.fn {
		m.fail("func-not-restored", "%s: Func() is %v, it was %v when the construct was opened", what, fname(cb.Func()), fname(fr.fn))
		return
	}
	if cb.InVBlock() != fr.vblock {
		m.fail("vblock-not-restored", "%s: InVBlock() is %v, it was %v when the construct was opened", what, cb.InVBlock(), fr.vblock)
		return
	}
	if f := m.curFile(); f != fr.file {
		m.fail("file-not-restored", "%s: current file is %q, it was %q when the construct was opened", what, f, fr.file)
		return
	}
	if fr.labels != nil && fr.fn != nil {
		for _, n := range m.labelNames {
			l, _ := cb.LookupLabel(n)
			if l != fr.labels[n] {
				m.fail("labels-not-restored", "%s: LookupLabel(%q) answers differently than before the construct was opened", what, n)
				return
			}
		}
	}
	m.out.Probe("close_checked_" + fr.kind)
}

func fname(f *gogen.Func) string {
	if f == nil {
		return "<none>"
	}
	return f.Name()
}

func (m *model) enter(what, name string) {
	if m.c.Pkg == nil {
		return
	}
	cb := m.c.Pkg.CB()
	m.nested = append(m.nested, snapshot{cb.InternalStack().Len(), cb.Scope(), cb.Func(), cb.InVBlock(), m.curFile(), len(m.frames), m.depth})
	if cb.InternalStack().Len() > m.base() {
		m.out.Probe("nested_action_with_operands_on_stack")
	}
	m.out.Probe("nested_" + what)
}

func (m *model) leave(what, name string) {
	if m.c.Pkg == nil || len(m.nested) == 0 {
		return
	}
	s := m.nested[len(m.nested)-1]
	m.nested = m.nested[:len(m.nested)-1]
	if m.viol != "" || m.unknown {
		return
	}
	cb := m.c.Pkg.CB()
	switch {
	case cb.InternalStack().Len() != s.len:
		m.fail("nested-stack", "a nested %s of %s left the operand stack at %d, it was %d when it started", what, name, cb.InternalStack().Len(), s.len)
	case cb.Scope() != s.scope:
		m.fail("nested-scope", "a nested %s of %s left a different scope current", what, name)
	case cb.Func() != s.fn:
		m.fail("nested-func", "a nested %s of %s left Func()=%s, it was %s", what, name, fname(cb.Func()), fname(s.fn))
	case cb.InVBlock() != s.vblock:
		m.fail("nested-vblock", "a nested %s of %s changed InVBlock()", what, name)
	case m.curFile() != s.file:
		m.fail("nested-file", "a nested %s of %s left file %q current, it was %q", what, name, m.curFile(), s.file)
	case len(m.frames) != s.frames || m.depth != s.depth:
		m.fail("model:nested", "model frames/depth changed across a nested action (%d/%d -> %d/%d)", s.frames, s.depth, len(m.frames), m.depth)
	}
}

var labelRe = regexp.MustCompile(`(?m)^\s*([A-Za-z_]\w*):\s*$`)

func exec1(rec any) *core.Outcome {
	r := rec.(*Record)
	out := &core.Outcome{}
	m := &model{kinds: map[string]int{}, out: out}
	p := r.Prog
	if p.Corpus != "" {
		if ce := env.Corpus[p.Corpus]; ce != nil {
			p = ce.Prog
		}
	}
	seen := map[string]bool{}
	for _, f := range p.Files {
		for _, mm := range labelRe.FindAllStringSubmatch(f.Text, -1) {
			if !seen[mm[1]] && mm[1] != "default" {
				seen[mm[1]] = true
				m.labelNames = append(m.labelNames, mm[1])
			}
		}
	}
	var ops []string
	hooks := &minicl.Hooks{}
	hooks.Before = func(op string) {
		if m.c == nil {
			return
		}
		m.before(op)
		if op == "BodyStart" && m.c.Pkg != nil {
			m.preLabels = map[string]*gogen.Label{}
			for _, n := range m.labelNames {
				if l, ok := m.c.Pkg.CB().LookupLabel(n); ok {
					m.preLabels[n] = l
				}
			}
		}
	}
	trace := os.Getenv("C16_TRACE") != ""
	hooks.After = func(op string, a, b int) {
		ops = append(ops, op)
		if m.c != nil {
			m.after(op, a, b)
			if trace && m.c.Pkg != nil {
				fmt.Printf("  %-16s a=%d b=%d model=%d actual=%d frames=%s\n", op, a, b, m.depth, m.c.Pkg.CB().InternalStack().Len(), m.stackString())
			}
		}
	}
	hooks.Enter = func(what, name string) {
		if m.c != nil {
			m.enter(what, name)
		}
	}
	hooks.Leave = func(what, name string) {
		if m.c != nil {
			m.leave(what, name)
		}
	}
	res := env.BuildWith(r.Prog, r.Front, hooks, func(c *minicl.Compiler) { m.c = c })
	out.HistHash = core.Hash(ops...)
	if res.LoadErr != nil {
		out.Observe("invalid_program_discarded")
		out.ObsHash = "invalid"
		return out
	}
	out.Ops = res.Ops
	out.Steps = res.Ops
	for k, n := range res.FaultFired {
		for j := 0; j < n; j++ {
			out.Fault(k)
		}
	}
	if res.C != nil && res.C.MidAbort != "" {
		out.Observe("front_end_exceeded_subset_mid_construct")
		out.ObsHash = "midabort:" + res.C.MidAbort
		if os.Getenv("C16_TRACE") != "" {
			fmt.Println("MIDABORT", res.C.MidAbort)
		}
		return out
	}
	if m.viol != "" {
		key := m.key
		if strings.HasPrefix(key, "model:") {
			key = "harness-" + key
		}
		out.Violate(P, key, m.viol)
		return out
	}
	if res.Rejected != "" && len(r.Front.Faults) > 0 {
		// after the documented recovery calls the builder must be as usable as without the
		// fault: the same record without faults decides
		f2 := *r.Front
		f2.Faults = nil
		twin := env.Build(r.Prog, &f2, nil)
		if twin.LoadErr == nil && twin.Rejected == "" {
			out.Violate(P, "unusable-after-recovery", fmt.Sprintf("the build is accepted without the injected faults %v; with them (each followed by its documented recovery call) it fails later with: %s", r.Front.Faults, res.Rejected))
			return out
		}
	}
	if res.Rejected != "" {
		out.Observe("program_rejected_by_gogen")
		if res.Runtime {
			out.Observe("gogen_runtime_panic")
		}
		out.ObsHash = "rejected"
		return out
	}
	if len(m.frames) != 0 || m.depth != 0 {
		out.Violate(P, "unbalanced-at-end", fmt.Sprintf("at the end of the build %d constructs are open in the model and the stack depth is %d: %s", len(m.frames), m.depth, m.stackString()))
		return out
	}
	out.ObsHash = core.Hash(fmt.Sprint(m.nops), fmt.Sprint(m.kinds))
	out.ProbeN("max_nesting_ge8", b2i(m.maxNest >= 8))
	out.ProbeN("max_nesting_ge12", b2i(m.maxNest >= 12))
	out.ProbeN("lazy_load_fired", res.C.LazyFired)
	out.ProbeN("on_demand_declarations", res.C.OnDemand)
	out.ProbeN("overload_family_calls", res.C.Overloaded)
	for _, k := range core.SortedKeys(m.kinds) {
		out.ProbeN("opened_"+k, m.kinds[k])
	}
	out.Shape = core.Hash(out.HistHash, fmt.Sprint(r.Front.Faults))
	out.Nontrivial = res.Ops >= 20 && m.maxNest >= 3
	out.Sample = map[string]any{"program": progShort(r.Prog), "front": r.Front, "operations": res.Ops, "max_nesting": m.maxNest, "constructs": m.kinds}
	return out
}

func b2i(b bool) int {
	if b {
		return 1
	}
	return 0
}

func progShort(p *prog.Program) any {
	if p.Corpus != "" {
		return "corpus:" + p.Corpus
	}
	n := 0
	for _, f := range p.Files {
		n += strings.Count(f.Text, "\n")
	}
	return map[string]any{"synthetic_files": len(p.Files), "lines": n, "xgo_packages": len(p.XGo), "package": p.PkgName}
}

func simplify(rec any) []any {
	r := rec.(*Record)
	var out []any
	for _, p := range gencommon.SimplifyProgram(r.Prog) {
		out = append(out, &Record{Prog: p, Front: r.Front})
	}
	for _, f := range gencommon.SimplifyFront(r.Front) {
		out = append(out, &Record{Prog: r.Prog, Front: f})
	}
	return out
}

func TestSim(t *testing.T) {
	e := &core.Engine{Property: P, Gen: gen, NewRecord: func() any { return &Record{} }, Exec: exec1, Simplify: simplify, Deterministic: true}
	e.Extra = func() map[string]any {
		return map[string]any{"corpus_packages_admitted": env.Paths}
	}
	core.Main(t, e)
}
