package c15

import (
	"crypto/sha256"
	"encoding/hex"
	"encoding/json"
	"fmt"
	"os"
	"os/exec"
	"path/filepath"
	"runtime"
	"runtime/debug"
	"sort"
	"strings"
	"testing"

	"pgregory.net/rapid"

	"gogenverif/sim/core"
	"gogenverif/sim/gencommon"
	"gogenverif/sim/minicl"
	"gogenverif/sim/prog"
	"gogenverif/sim/run"
	"gogenverif/sim/seams"
)

const P = "C15"

// EnvSpec is one environment: everything the property says must not matter.
type EnvSpec struct {
	Native   bool  `json:"native,omitempty"`    // hooks off: runtime map order, real sync.Pool
	MapOrder []int `json:"map_order,omitempty"` // tape of permutation codes, one per unordered iteration
	MapDflt  int   `json:"map_default"`         // code when the tape is exhausted (0 ascending, 1 descending)
	Pool     []int `json:"pool,omitempty"`      // tape of pool decisions (-1 fresh, k = k-th most recent)
	PoolDflt int   `json:"pool_default"`
	Ballast  int   `json:"ballast,omitempty"` // KiB of garbage allocated before the build
	GCBefore bool  `json:"gc_before,omitempty"`
	GOGC     int   `json:"gogc,omitempty"`            // 0 = leave
	Pollute  int   `json:"pollute,omitempty"`         // unrelated builds first, in the same process
	Again    bool  `json:"again,omitempty"`           // the history is built twice on ONE importer (same imported package objects, synthetic ones included); the second build is the measured one
	Shared   bool  `json:"shared_importer,omitempty"` // standard packages come from one importer shared by all builds of the process
	Twin     bool  `json:"twin,omitempty"`            // first build another revision of the same program's synthetic dependencies (same import paths, other contents)
	Scramble int   `json:"scramble,omitempty"`        // small objects per size class allocated and partly freed (pattern from Ballast) so that later allocations fill holes in scrambled address order
}

type Record struct {
	Prog  *prog.Program `json:"program"`
	Front *run.Front    `json:"front"`
	Envs  []EnvSpec     `json:"envs"`
}

var env *run.Env

var ballastSink [][]byte
var scrambleSink [][]byte
var probeSink []*[96]byte
var twinBuilds, againBuilds int
var saltCounter int
var addrFlips, addrProbes int

func TestMain(m *testing.M) {
	var err error
	env, err = run.NewEnv(true)
	if err != nil {
		fmt.Fprintln(os.Stderr, "c15:", err)
		os.Exit(2)
	}
	if in := os.Getenv("VERIF_XPROC_IN"); in != "" {
		os.Exit(xprocChild(in, os.Getenv("VERIF_XPROC_OUT")))
	}
	m.Run()
	os.Exit(core.ExitCode())
}

func gen(rt *rapid.T) any {
	r := &Record{}
	r.Prog = gencommon.Program(rt, gencommon.ProgramSpec{CorpusShare: 2, Lib: 6, MaxXGo: 4, Budget: 50, MaxDepth: 3, MaxDecls: 8}, env.Paths)
	if r.Prog.Corpus == "" {
		r.Prog.ForceImports = gencommon.ForceImports(rt)
	}
	r.Front = gencommon.Front(rt, gencommon.FrontSpec{Faults: []string{"discard_ref", "abort_stmt", "abort_init", "discard_reset"}, MaxFaults: 3, Constructs: []string{"vblock", "inline_closure", "bigint_op", "unit_lit", "unsafe_ref", "bti_call", "generic_decl", "generic_inst"}, FileAssign: true, HandlerFlip: true, Writes: true, CompleteEarly: true, FailedPrint: true})
	r.Envs = []EnvSpec{
		{Native: true},
		{MapDflt: 0, PoolDflt: -1},
		{MapDflt: 1, PoolDflt: 0, Ballast: 256, GCBefore: true, Scramble: 200, Twin: true, Shared: true},
		{MapDflt: 0, PoolDflt: -1, Shared: true},
		{MapDflt: 0, PoolDflt: -1, Again: true},
	}
	n := rapid.IntRange(1, 3).Draw(rt, "nenv")
	for i := 0; i < n; i++ {
		e := EnvSpec{MapDflt: rapid.IntRange(0, 23).Draw(rt, "mapdflt"), PoolDflt: rapid.IntRange(-1, 2).Draw(rt, "pooldflt")}
		k := rapid.IntRange(0, 12).Draw(rt, "nmo")
		for j := 0; j < k; j++ {
			e.MapOrder = append(e.MapOrder, rapid.IntRange(0, 23).Draw(rt, "mo"))
		}
		k = rapid.IntRange(0, 6).Draw(rt, "npool")
		for j := 0; j < k; j++ {
			e.Pool = append(e.Pool, rapid.IntRange(-1, 3).Draw(rt, "pool"))
		}
		e.Ballast = rapid.SampledFrom([]int{0, 64, 1024, 8192}).Draw(rt, "ballast")
		e.GCBefore = rapid.Bool().Draw(rt, "gc")
		e.GOGC = rapid.SampledFrom([]int{0, 10, 100, 400}).Draw(rt, "gogc")
		e.Pollute = rapid.IntRange(0, 2).Draw(rt, "pollute")
		e.Scramble = rapid.SampledFrom([]int{0, 0, 50, 400}).Draw(rt, "scramble")
		e.Twin = rapid.Bool().Draw(rt, "twin")
		e.Shared = rapid.Bool().Draw(rt, "shared_importer")
		e.Again = rapid.IntRange(0, 2).Draw(rt, "again") == 0
		r.Envs = append(r.Envs, e)
	}
	return r
}

type built struct {
	res   *run.Result
	hist  string
	tapes *seams.Tapes
}

var polluters = []string{"container/ring", "container/heap", "encoding/hex"}

func buildIn(r *Record, e EnvSpec) *built {
	var tp *seams.Tapes
	if e.Native {
		seams.Uninstall()
	} else {
		tp = &seams.Tapes{MapOrder: e.MapOrder, Default: e.MapDflt, Pool: e.Pool, PoolDflt: e.PoolDflt, TrackSites: true}
		seams.Install(tp)
	}
	defer seams.Uninstall()
	if e.GOGC > 0 {
		defer debug.SetGCPercent(debug.SetGCPercent(e.GOGC))
	}
	if e.Ballast > 0 {
		ballastSink = nil
		left := e.Ballast * 1024
		for sz := 24; left > 0; sz = sz*3/2 + 8 {
			if sz > 65536 {
				sz = 24
			}
			ballastSink = append(ballastSink, make([]byte, sz))
			left -= sz
		}
		// free half of it to punch holes into the heap
		for i := 0; i < len(ballastSink); i += 2 {
			ballastSink[i] = nil
		}
	}
	if e.Scramble > 0 {
		scrambleSink = scrambleSink[:0]
		x := uint32(e.Ballast*7919 + e.Scramble + 1)
		for sz := 16; sz <= 512; sz += 16 {
			for k := 0; k < e.Scramble; k++ {
				scrambleSink = append(scrambleSink, make([]byte, sz))
			}
		}
		for i := range scrambleSink {
			x = x*1664525 + 1013904223
			if x>>28 < 9 { // free a bit more than half, pseudo-randomly
				scrambleSink[i] = nil
			}
		}
		runtime.GC()
		runtime.GC()
	}
	if e.GCBefore {
		runtime.GC()
	}
	// does the layout differ at all? two allocations of one size class with other
	// allocations of that class in between (as two imported packages would be)
	{
		a := new([96]byte)
		for i := 0; i < 300; i++ {
			probeSink = append(probeSink, new([96]byte))
		}
		b := new([96]byte)
		probeSink = probeSink[:0]
		addrProbes++
		if fmt.Sprintf("%p", a) > fmt.Sprintf("%p", b) {
			addrFlips++
		}
	}
	// every build has its own synthetic import paths (removed again from the output), so
	// that records and environments never meet by accident; the twin - another revision of
	// the same dependencies - deliberately shares them with the measured build
	saltCounter++
	salt := saltCounter
	if e.Twin {
		if t := prog.Twin(r.Prog); t != nil {
			env.BuildSalted(t, &run.Front{XGoBuiltin: r.Front.XGoBuiltin, Faults: r.Front.Faults, SharedImporter: e.Shared}, nil, salt)
			twinBuilds++
		}
	}
	for i := 0; i < e.Pollute; i++ {
		p := polluters[i%len(polluters)]
		if _, ok := env.Corpus[p]; ok {
			env.Build(&prog.Program{Corpus: p, PkgPath: p}, &run.Front{}, nil)
		}
	}
	var ops []string
	hooks := &minicl.Hooks{After: func(op string, x, y int) { ops = append(ops, op) }}
	fr := *r.Front
	fr.SharedImporter = e.Shared
	if e.Again {
		// a long-running client (or gogen's own test suite) keeps one importer for all its
		// builds: whatever the first build left on the imported packages, or keyed by
		// them, is there for the second
		first := env.BuildSalted(r.Prog, &fr, nil, salt)
		if first.Imp != nil && first.LoadErr == nil {
			fr.ReuseImporter = first.Imp
			againBuilds++
		}
	}
	res := env.BuildSalted(r.Prog, &fr, hooks, salt)
	return &built{res: res, hist: core.Hash(ops...), tapes: tp}
}

func digest(res *run.Result) string {
	h := sha256.New()
	for _, n := range res.Names {
		fmt.Fprintf(h, "%s\x00%d\x00", n, len(res.Files[n]))
		h.Write(res.Files[n])
		fmt.Fprintf(h, "\x00%s\x00", res.WriteErr[n])
	}
	return hex.EncodeToString(h.Sum(nil))[:20]
}

// classify names the violation class from the differing lines.
func classify(a, b []byte) (key, detail string) {
	la, lb := strings.Split(string(a), "\n"), strings.Split(string(b), "\n")
	var da, db []string
	if len(la) == len(lb) {
		for i := range la {
			if la[i] != lb[i] {
				da = append(da, la[i])
				db = append(db, lb[i])
			}
		}
	} else {
		return "bytes-differ", fmt.Sprintf("files have %d and %d lines", len(la), len(lb))
	}
	onlyMarker := len(da) > 0
	for i := range da {
		x, okx := markerItems(da[i])
		y, oky := markerItems(db[i])
		if !okx || !oky || x != y {
			onlyMarker = false
		}
	}
	if len(da) > 0 {
		detail = fmt.Sprintf("%q vs %q", da[0], db[0])
	}
	if onlyMarker {
		return "xgopackage-dep-order", detail
	}
	return "bytes-differ", detail
}

// markerItems returns the sorted items of a `const XGoPackage = "a,b"` line.
func markerItems(l string) (string, bool) {
	l = strings.TrimSpace(l)
	const pre = `const XGoPackage = "`
	if !strings.HasPrefix(l, pre) || !strings.HasSuffix(l, `"`) {
		return "", false
	}
	items := strings.Split(l[len(pre):len(l)-1], ",")
	sort.Strings(items)
	return strings.Join(items, ","), true
}

var xbatch []json.RawMessage
var xdigests []string
var xprocRuns, xprocBatches int

func exec1(rec any) *core.Outcome {
	r := rec.(*Record)
	out := &core.Outcome{}
	var ref *built
	refIdx := -1
	shape := []string{r.Prog.Corpus, fmt.Sprint(len(r.Prog.Files), len(r.Prog.XGo)), fmt.Sprint(r.Front.Eager, r.Front.Lazy, r.Front.BodyOrder, r.Front.FileAssign, r.Front.Faults)}
	nonIdent := 0
	for i, e := range r.Envs {
		b := buildIn(r, e)
		if b.res.LoadErr != nil {
			out.Observe("invalid_program_discarded")
			out.HistHash, out.ObsHash = "invalid", "invalid"
			return out
		}
		if b.tapes != nil {
			nonIdent += b.tapes.NonIdent
			out.ProbeN("pool_reuse_hit", b.tapes.PoolHits)
			out.ProbeN("pool_miss", b.tapes.PoolMisses)
			out.ProbeN("map_order_decisions_ge2_keys", b.tapes.Calls)
			out.ProbeN("map_key_ties", b.tapes.Ties)
			for _, s := range core.SortedKeys(b.tapes.Sites) {
				out.ProbeN("site:"+s, b.tapes.Sites[s])
			}
		}
		if ref == nil {
			ref, refIdx = b, i
			out.Ops = b.res.Ops
			out.HistHash = b.hist
			for k, n := range b.res.FaultFired {
				for j := 0; j < n; j++ {
					out.Fault(k)
				}
			}
			if b.res.Rejected == "" {
				for _, n := range b.res.Names {
					if strings.Contains(string(b.res.Files[n]), "const XGoPackage = \"") {
						if it, ok := markerLine(b.res.Files[n]); ok && strings.Contains(it, ",") {
							out.Probe("marker_with_ge2_dependencies")
						}
					}
					if strings.Count(string(b.res.Files[n]), "\n\t\"") >= 2 || strings.Count(string(b.res.Files[n]), " \"") >= 2 {
						out.Probe("file_with_ge2_imports")
					}
				}
				if len(b.res.Names) >= 2 {
					out.Probe("ge2_files")
				}
				out.ProbeN("lazy_load_fired", b.res.C.LazyFired)
				out.ProbeN("on_demand_declarations", b.res.C.OnDemand)
				out.ProbeN("overload_family_calls", b.res.C.Overloaded)
			}
			continue
		}
		if b.hist != ref.hist {
			// the front end issued different operations: only possible if gogen called back
			// differently or rejected at a different point
			if (b.res.Rejected == "") == (ref.res.Rejected == "") && b.res.Rejected == "" {
				out.Violate(P, "history-differs", fmt.Sprintf("the front end issued a different operation sequence in environment %d than in %d for one record", i, refIdx))
				return out
			}
		}
		if (b.res.Rejected == "") != (ref.res.Rejected == "") {
			out.Violate(P, "acceptance-differs", fmt.Sprintf("environment %d: rejected=%q, environment %d: rejected=%q %s%s", refIdx, ref.res.Rejected, i, b.res.Rejected, ref.res.Stack, b.res.Stack))
			return out
		}
		if ref.res.Rejected != "" {
			continue
		}
		if strings.Join(b.res.Names, ",") != strings.Join(ref.res.Names, ",") {
			out.Violate(P, "file-set-differs", fmt.Sprintf("files %v in environment %d, %v in environment %d", ref.res.Names, refIdx, b.res.Names, i))
			return out
		}
		for _, n := range ref.res.Names {
			x, y := ref.res.Files[n], b.res.Files[n]
			if string(x) != string(y) || ref.res.WriteErr[n] != b.res.WriteErr[n] {
				key, detail := classify(x, y)
				out.Violate(P, key, fmt.Sprintf("file %s differs between environment %d (%s) and environment %d (%s): %s",
					n, refIdx, envName(r.Envs[refIdx]), i, envName(e), detail))
				return out
			}
		}
	}
	if ref.res.Rejected != "" {
		out.Observe("program_rejected_by_gogen")
		if ref.res.Runtime {
			out.Observe("gogen_runtime_panic")
		}
		out.ObsHash = "rejected"
		return out
	}
	out.ObsHash = digest(ref.res)
	out.ProbeN("non_identity_permutations", nonIdent)
	out.Shape = core.Hash(append(shape, out.HistHash)...)
	out.Nontrivial = out.Ops >= 20 && nonIdent > 0
	out.Steps = out.Ops * len(r.Envs)
	out.Sample = map[string]any{"program": progShort(r.Prog), "front": r.Front, "envs": len(r.Envs), "digest": out.ObsHash}
	// queue for the cross-process comparison
	replaying := os.Getenv("VERIF_REPLAY") != ""
	if (os.Getenv("VERIF_XPROC") != "" || replaying) && len(xbatch) < 24 {
		if b, err := json.Marshal(r); err == nil {
			xbatch = append(xbatch, b)
			xdigests = append(xdigests, out.ObsHash)
		}
		if len(xbatch) == 24 || replaying {
			if v := flushXproc(); v != nil {
				out.Violations = append(out.Violations, *v)
			}
		}
	}
	return out
}

func markerLine(b []byte) (string, bool) {
	for _, l := range strings.Split(string(b), "\n") {
		if it, ok := markerItems(l); ok {
			return it, true
		}
	}
	return "", false
}

func envName(e EnvSpec) string {
	if e.Native {
		return "native runtime order"
	}
	return fmt.Sprintf("map default %d tape %v, pool default %d tape %v, ballast %dKiB", e.MapDflt, e.MapOrder, e.PoolDflt, e.Pool, e.Ballast)
}

func progShort(p *prog.Program) any {
	if p.Corpus != "" {
		return "corpus:" + p.Corpus
	}
	var xs []string
	for _, x := range p.XGo {
		xs = append(xs, x.Path)
	}
	n := 0
	for _, f := range p.Files {
		n += strings.Count(f.Text, "\n")
	}
	return map[string]any{"synthetic_files": len(p.Files), "lines": n, "xgo_packages": xs, "package": p.PkgName}
}

// flushXproc re-executes the queued records in a fresh OS process (fresh address space,
// other GOMAXPROCS and GOGC, native map order) and compares output digests.
func flushXproc() *core.Violation {
	if len(xbatch) == 0 {
		return nil
	}
	defer func() { xbatch, xdigests = nil, nil }()
	dir := os.Getenv("VERIF_OUT")
	in := filepath.Join(dir, fmt.Sprintf("xproc-in-%d.json", xprocBatches))
	outp := filepath.Join(dir, fmt.Sprintf("xproc-out-%d.json", xprocBatches))
	b, _ := json.Marshal(xbatch)
	os.WriteFile(in, b, 0o644)
	if os.Getenv("C15_KEEP_XPROC") == "" {
		defer os.Remove(in)
		defer os.Remove(outp)
	}
	cmd := exec.Command(os.Args[0], "-test.run", "^$")
	variant := xprocBatches % 3
	if v := os.Getenv("VERIF_XPROC_VARIANT"); v != "" {
		fmt.Sscan(v, &variant)
		variant %= 3
	}
	procs := []string{"1", "4", "16"}[variant]
	cmd.Env = append(os.Environ(), "VERIF_XPROC_IN="+in, "VERIF_XPROC_OUT="+outp, "GOMAXPROCS="+procs, "GOGC="+[]string{"20", "off", "100"}[variant], "VERIF_XPROC=")
	xprocBatches++
	if err := cmd.Run(); err != nil {
		return &core.Violation{Property: P, Key: "xproc-child-failed", Detail: "cross-process child failed: " + err.Error(), NoShrink: true}
	}
	ob, err := os.ReadFile(outp)
	if err != nil {
		return &core.Violation{Property: P, Key: "xproc-child-failed", Detail: err.Error(), NoShrink: true}
	}
	var got []string
	json.Unmarshal(ob, &got)
	for i := range xbatch {
		xprocRuns++
		if i < len(got) && got[i] != xdigests[i] {
			return &core.Violation{Property: P, Key: "differs-across-processes",
				Detail:   fmt.Sprintf("one record gave output digest %s in this process and %s in a fresh process (GOMAXPROCS=%s)", xdigests[i], got[i], procs),
				NoShrink: true, Record: append([]byte{}, xbatch[i]...)}
		}
	}
	return nil
}

func xprocChild(in, outp string) int {
	b, err := os.ReadFile(in)
	if err != nil {
		return 2
	}
	var recs []json.RawMessage
	if json.Unmarshal(b, &recs) != nil {
		return 2
	}
	var digs []string
	for _, rb := range recs {
		var r Record
		if json.Unmarshal(rb, &r) != nil {
			digs = append(digs, "undecodable")
			continue
		}
		bl := buildIn(&r, EnvSpec{Native: true, Ballast: 512})
		if bl.res.Rejected != "" || bl.res.LoadErr != nil {
			digs = append(digs, "rejected")
			continue
		}
		digs = append(digs, digest(bl.res))
	}
	ob, _ := json.Marshal(digs)
	if os.WriteFile(outp, ob, 0o644) != nil {
		return 2
	}
	return 0
}

func simplify(rec any) []any {
	r := rec.(*Record)
	var out []any
	if len(r.Envs) > 2 {
		for i := range r.Envs {
			c := *r
			c.Envs = append(append([]EnvSpec{}, r.Envs[:i]...), r.Envs[i+1:]...)
			out = append(out, &c)
		}
	}
	for _, p := range gencommon.SimplifyProgram(r.Prog) {
		c := *r
		c.Prog = p
		out = append(out, &c)
	}
	for _, f := range gencommon.SimplifyFront(r.Front) {
		c := *r
		c.Front = f
		out = append(out, &c)
	}
	for i, e := range r.Envs {
		if len(e.MapOrder) > 0 || len(e.Pool) > 0 || e.Ballast > 0 || e.Pollute > 0 || e.GOGC > 0 || e.Scramble > 0 || e.Twin || e.Shared || e.Again {
			c := *r
			c.Envs = append([]EnvSpec{}, r.Envs...)
			c.Envs[i] = EnvSpec{Native: e.Native, MapDflt: e.MapDflt, PoolDflt: e.PoolDflt}
			out = append(out, &c)
		}
	}
	return out
}

func TestSim(t *testing.T) {
	e := &core.Engine{Property: P, Gen: gen, NewRecord: func() any { return &Record{} }, Exec: exec1, Simplify: simplify, Deterministic: true}
	e.Extra = func() map[string]any {
		if v := flushXproc(); v != nil {
			core.LateViolation(*v)
		}
		return map[string]any{
			"corpus_packages_admitted": env.Paths,
			"cross_process_records":    xprocRuns,
			"twin_pollution_builds":    twinBuilds,
			"rebuilt_on_one_importer":  againBuilds,
			"cross_process_batches":    xprocBatches,
			"heap_layout_probe":        fmt.Sprintf("%d of %d probe allocation pairs came out in descending address order", addrFlips, addrProbes),
		}
	}
	core.Main(t, e)
}
