package c09

import (
	"fmt"
	"go/ast"
	"go/parser"
	"go/token"
	"go/types"
	"os"
	"regexp"
	"sort"
	"strconv"
	"strings"
	"testing"

	"pgregory.net/rapid"

	"gogenverif/sim/core"
	"gogenverif/sim/gencommon"
	"gogenverif/sim/minicl"
	"gogenverif/sim/prog"
	"gogenverif/sim/run"
	"gogenverif/sim/seams"
)

const P = "C09"

type Record struct {
	Prog     *prog.Program `json:"program"`
	Front    *run.Front    `json:"front"`
	MapOrder []int         `json:"map_order,omitempty"`
	MapDflt  int           `json:"map_default"`
}

var env *run.Env

func TestMain(m *testing.M) {
	var err error
	env, err = run.NewEnv(true)
	if err != nil {
		fmt.Fprintln(os.Stderr, "c09:", err)
		os.Exit(2)
	}
	m.Run()
	os.Exit(core.ExitCode())
}

func gen(rt *rapid.T) any {
	r := &Record{}
	r.Prog = gencommon.Program(rt, gencommon.ProgramSpec{CorpusShare: 2, Lib: 4, MaxXGo: 3, Budget: 60, MaxDepth: 4, MaxDecls: 8}, env.Paths)
	if r.Prog.Corpus == "" {
		r.Prog.ForceImports = gencommon.ForceImports(rt)
	}
	r.Front = gencommon.Front(rt, gencommon.FrontSpec{Faults: []string{"discard_ref", "discard_reset", "abort_stmt"}, MaxFaults: 3, Constructs: []string{"inline_closure", "bigint_op", "unit_lit", "unsafe_ref", "bti_call", "generic_decl"}, FileAssign: true, Writes: true, LateRefs: true})
	r.MapDflt = rapid.IntRange(0, 23).Draw(rt, "mapdflt")
	n := rapid.IntRange(0, 6).Draw(rt, "nmo")
	for i := 0; i < n; i++ {
		r.MapOrder = append(r.MapOrder, rapid.IntRange(0, 23).Draw(rt, "mo"))
	}
	return r
}

var autoRe = regexp.MustCompile(`_autoGo_\d+ redeclared`)

// a selector whose left side is not a package although it is written like a reference to one
var undefSelRe = regexp.MustCompile(`(\w+)\.(\w+) undefined \(type .* has no field or method`)

var implicitBase = map[string]string{"big": "math/big", "strconv": "strconv", "strings": "strings", "fmt": "fmt", "builtin": "github.com/goplus/gogen/internal/builtin"}

// gogen may add references of its own to these packages (documented implicit imports).
var implicitOK = map[string]bool{"strconv": true, "strings": true, "math/big": true, "github.com/goplus/gogen/internal/builtin": true, "sort": true, "fmt": true}

func declKind(info *types.Info, id *ast.Ident, obj types.Object, funcScopes map[*types.Scope]string) string {
	switch o := obj.(type) {
	case *types.Label, *types.PkgName:
		return ""
	case *types.Func:
		if sig, ok := o.Type().(*types.Signature); ok && sig.Recv() != nil {
			return "" // methods live in another namespace
		}
		return "func"
	case *types.TypeName:
		return "type"
	case *types.Const:
		return "const"
	case *types.Var:
		if o.IsField() {
			return ""
		}
		if o.Parent() != nil {
			if k := funcScopes[o.Parent()]; k != "" {
				// parameters and results are declared in the function's own scope
				return k
			}
		}
		return "var"
	}
	return ""
}

func exec1(rec any) *core.Outcome {
	r := rec.(*Record)
	out := &core.Outcome{}
	tp := &seams.Tapes{MapOrder: r.MapOrder, Default: r.MapDflt, PoolDflt: -1}
	seams.Install(tp)
	var ops []string
	hooks := &minicl.Hooks{After: func(op string, a, b int) { ops = append(ops, op) }}
	res := env.Build(r.Prog, r.Front, hooks)
	seams.Uninstall()
	out.HistHash = core.Hash(ops...)
	if res.LoadErr != nil {
		out.Observe("invalid_program_discarded")
		out.ObsHash = "invalid"
		return out
	}
	out.Ops, out.Steps = res.Ops, res.Ops
	for k, n := range res.FaultFired {
		for j := 0; j < n; j++ {
			out.Fault(k)
		}
	}
	if tp.NonIdent > 0 {
		out.Fault("map_order")
	}
	if res.Rejected != "" {
		out.Observe("program_rejected_by_gogen")
		out.ObsHash = "rejected"
		return out
	}
	if res.C.MidAbort != "" {
		out.Observe("front_end_exceeded_subset_mid_construct")
		out.ObsHash = "midabort"
		return out
	}
	out.ProbeN("lazy_load_fired", res.C.LazyFired)
	out.ProbeN("on_demand_declarations", res.C.OnDemand)
	out.ProbeN("overload_family_calls", res.C.Overloaded)
	// ---- the oracle: parse and type-check what was written
	fset := token.NewFileSet()
	var files []*ast.File
	var all strings.Builder
	for _, n := range res.Names {
		if e := res.WriteErr[n]; e != "" {
			if os.Getenv("C09_DEBUG") != "" {
				fmt.Println("WRITEERR", n, e, r.Front.Faults)
			}
			out.Observe("write_error_after_abort")
			out.ObsHash = "writeerr"
			return out
		}
		all.Write(res.Files[n])
		f, err := parser.ParseFile(fset, n, res.Files[n], parser.SkipObjectResolution)
		if err != nil {
			if len(r.Front.Faults) > 0 {
				out.Observe("unparseable_after_abort")
				out.ObsHash = "unparseable"
				return out
			}
			// what a written file looks like syntactically is C12's subject (not claimed)
			out.Observe("output_does_not_parse")
			out.ObsHash = "unparseable"
			return out
		}
		files = append(files, f)
	}
	out.ObsHash = core.Hash(all.String())
	info := &types.Info{Uses: map[*ast.Ident]types.Object{}, Defs: map[*ast.Ident]types.Object{}, Scopes: map[ast.Node]*types.Scope{}, Implicits: map[ast.Node]types.Object{}}
	var terrs []string
	p := r.Prog
	if p.Corpus != "" {
		p = env.Corpus[p.Corpus].Prog
	}
	conf := types.Config{Importer: env.Exports.NewImporter(fset, p.Synthetics()), Error: func(err error) { terrs = append(terrs, err.Error()) }}
	tpkg, _ := conf.Check(p.PkgPath, fset, files, info)
	for _, e := range terrs {
		// references gogen adds on its own (math/big for big-number literals, fmt for the
		// overloaded println...) are not tagged by the front end: a reference written with
		// the package's base name that resolves to a variable instead has been captured
		if m := undefSelRe.FindStringSubmatch(e); m != nil {
			if path, ok := implicitBase[m[1]]; ok {
				if ip, err := conf.Importer.Import(path); err == nil && ip.Scope().Lookup(m[2]) != nil && ast.IsExported(m[2]) {
					captured := true
					for _, t := range res.C.RefTags {
						if t.Path == path && t.Name == m[2] {
							captured = false // an explicit reference: judged below with the file it belongs to
						}
					}
					if captured {
						out.Violate(P, "implicit-reference-captured", fmt.Sprintf("a reference to package %q that gogen added itself is shadowed by a declared identifier: %s", path, e))
						return out
					}
				}
			}
		}
		if autoRe.MatchString(e) {
			out.Violate(P, "autoname-collision", "a generated helper name coincides with another declaration: "+e)
			return out
		}
	}
	// scopes of function types: parameters and results
	funcScopes := map[*types.Scope]string{}
	for n, sc := range info.Scopes {
		if ft, ok := n.(*ast.FuncType); ok {
			funcScopes[sc] = "param-or-result"
			_ = ft
		}
	}
	// declared identifiers by name, with the kind of declaration
	declared := map[string]map[string]bool{}
	var defIDs []*ast.Ident
	for id := range info.Defs {
		defIDs = append(defIDs, id)
	}
	sort.Slice(defIDs, func(i, j int) bool { return defIDs[i].Pos() < defIDs[j].Pos() })
	for _, id := range defIDs {
		obj := info.Defs[id]
		if obj == nil || id.Name == "_" {
			continue
		}
		k := declKind(info, id, obj, funcScopes)
		if k == "" {
			continue
		}
		if k == "var" && obj.Parent() != nil && tpkg != nil && obj.Parent() != tpkg.Scope() {
			k = "local"
		}
		if declared[id.Name] == nil {
			declared[id.Name] = map[string]bool{}
		}
		declared[id.Name][k] = true
	}
	pkgLevel := map[string]bool{}
	if tpkg != nil {
		for _, n := range tpkg.Scope().Names() {
			pkgLevel[n] = true
		}
	}
	// what the front end asked for, per file
	type key struct{ file, path, name string }
	wanted := map[key]int{}
	for _, t := range res.C.RefTags {
		wanted[key{t.File, t.Path, t.Name}]++
	}
	discardOnly := map[string]bool{}
	for _, d := range res.Discarded {
		discardOnly[d] = true
	}
	for _, lr := range res.LateRefs { // referenced for good after the first write
		delete(discardOnly, lr[1])
	}
	renamed := 0
	for fi, f := range files {
		fname := res.Names[fi]
		// imports of this file
		type imp struct {
			name, path string
			spec       *ast.ImportSpec
		}
		var imps []imp
		seenPath := map[string]bool{}
		seenName := map[string]string{}
		var blanks []string
		for _, is := range f.Imports {
			path, _ := strconv.Unquote(is.Path.Value)
			if seenPath[path] {
				out.Violate(P, "duplicate-import", fmt.Sprintf("%s imports %q twice", fname, path))
				return out
			}
			seenPath[path] = true
			if is.Name != nil && is.Name.Name == "_" {
				blanks = append(blanks, path)
				continue
			}
			name := ""
			if is.Name != nil {
				name = is.Name.Name
				renamed++
			} else if pn, ok := info.Implicits[is].(*types.PkgName); ok {
				name = pn.Name()
			} else {
				name = path[strings.LastIndex(path, "/")+1:]
			}
			if other, dup := seenName[name]; dup {
				out.Violate(P, "import-names-collide", fmt.Sprintf("%s imports %q and %q under the same name %s", fname, other, path, name))
				return out
			}
			seenName[name] = path
			imps = append(imps, imp{name, path, is})
			if pkgLevel[name] {
				out.Violate(P, "import-name-equals-package-level-identifier", fmt.Sprintf("%s imports %q as %s, which is also declared at package level", fname, path, name))
				return out
			}
		}
		// package-qualified references actually present
		usedPaths := map[string]bool{}
		present := map[key]int{}
		ast.Inspect(f, func(n ast.Node) bool {
			se, ok := n.(*ast.SelectorExpr)
			if !ok {
				return true
			}
			id, ok := se.X.(*ast.Ident)
			if !ok {
				return true
			}
			if pn, ok := info.Uses[id].(*types.PkgName); ok {
				usedPaths[pn.Imported().Path()] = true
				present[key{fname, pn.Imported().Path(), se.Sel.Name}]++
			}
			return true
		})
		for _, im := range imps {
			if !usedPaths[im.path] {
				k := "unused-import"
				if discardOnly[im.path] {
					k = "discarded-reference-imported"
				}
				out.Violate(P, k, fmt.Sprintf("%s imports %q (as %s) but no reference in the file resolves to it", fname, im.path, im.name))
				return out
			}
		}
		// every reference the front end built resolves to the package it was given
		var wk []key
		for k := range wanted {
			if k.file == fname {
				wk = append(wk, k)
			}
		}
		sort.Slice(wk, func(i, j int) bool { return wk[i].path+wk[i].name < wk[j].path+wk[j].name })
		for _, k := range wk {
			if present[k] == 0 && !discardOnly[k.path] {
				// where did it go? look for a selector with that member whose X is captured
				captured := ""
				ast.Inspect(f, func(n ast.Node) bool {
					if se, ok := n.(*ast.SelectorExpr); ok && se.Sel.Name == k.name {
						if id, ok := se.X.(*ast.Ident); ok {
							if o := info.Uses[id]; o != nil {
								if _, isPkg := o.(*types.PkgName); !isPkg {
									captured = fmt.Sprintf("%s.%s where %s resolves to %s", id.Name, k.name, id.Name, describe(o, funcScopes, tpkg))
									return false
								}
							}
						}
					}
					return true
				})
				if captured != "" {
					kind := "other"
					switch {
					case strings.Contains(captured, "parameter or result"):
						kind = "param-or-result"
					case strings.Contains(captured, "local"):
						kind = "local"
					}
					out.Violate(P, "qualified-reference-captured:"+kind, fmt.Sprintf("%s: the reference to %q.%s built by the front end appears as %s", fname, k.path, k.name, captured))
					return out
				}
				// or the selector is there but its left side is not declared at all: the
				// file lacks the import (or names it differently)
				unresolved := ""
				ast.Inspect(f, func(n ast.Node) bool {
					if se, ok := n.(*ast.SelectorExpr); ok && se.Sel.Name == k.name {
						if id, ok := se.X.(*ast.Ident); ok && info.Uses[id] == nil && info.Defs[id] == nil {
							unresolved = id.Name + "." + k.name
							return false
						}
					}
					return true
				})
				if unresolved != "" {
					out.Violate(P, "qualified-reference-unresolved", fmt.Sprintf("%s: the reference to %q.%s built by the front end appears as %s, and %s is not declared in the file (no such import)", fname, k.path, k.name, unresolved, strings.SplitN(unresolved, ".", 2)[0]))
					return out
				}
				if len(r.Front.Faults) > 0 || isConstFolded(k.path) {
					continue
				}
				out.Observe("reference_not_found_in_output")
			}
		}
		var pk []key
		for k := range present {
			pk = append(pk, k)
		}
		sort.Slice(pk, func(i, j int) bool { return pk[i].path+pk[i].name < pk[j].path+pk[j].name })
		for _, k := range pk {
			if wanted[k] == 0 && !implicitOK[k.path] {
				// resolves to a package the front end never referenced from this file with
				// this member: a reference went to the wrong package?
				other := ""
				for w := range wanted {
					if w.file == fname && w.name == k.name && w.path != k.path {
						other = w.path
					}
				}
				if other != "" {
					out.Violate(P, "reference-resolves-to-wrong-package", fmt.Sprintf("%s: %s.%s resolves to package %q, the front end referenced %q", fname, k.path[strings.LastIndex(k.path, "/")+1:], k.name, k.path, other))
					return out
				}
			}
		}
		// blank imports are exactly the force-imports (first file)
		want := map[string]bool{}
		if fname == res.Names0() {
			for _, fp := range p.ForceImports {
				want[fp] = true
			}
		}
		for _, fp := range res.LateForced[fname] {
			want[fp] = true
		}
		for _, b := range blanks {
			if !want[b] {
				out.Violate(P, "unexpected-blank-import", fmt.Sprintf("%s has `import _ %q`, which was not force-imported there", fname, b))
				return out
			}
			delete(want, b)
		}
		for b := range want {
			if !seenPath[b] {
				out.Violate(P, "force-import-missing", fmt.Sprintf("%s lacks the force-imported %q", fname, b))
				return out
			}
		}
		// strict reading: an import name differs from every identifier declared in the package
		for _, im := range imps {
			if kinds := declared[im.name]; len(kinds) > 0 {
				var ks []string
				for k := range kinds {
					ks = append(ks, k)
				}
				sort.Strings(ks)
				out.Violate(P, "import-name-equals-declared-identifier:"+strings.Join(ks, "+"),
					fmt.Sprintf("%s imports %q as %s; %s is also declared in the package as %s", fname, im.path, im.name, im.name, strings.Join(ks, ", ")))
				return out
			}
		}
		if len(imps) >= 2 {
			out.Probe("file_with_ge2_imports")
		}
	}
	out.ProbeN("renamed_imports", renamed)
	if len(files) >= 2 {
		out.Probe("ge2_files")
	}
	out.Shape = core.Hash(out.HistHash, fmt.Sprint(r.Front.Faults))
	out.Nontrivial = res.Ops >= 20 && renamed > 0
	out.Sample = map[string]any{"program": progShort(r.Prog), "front": r.Front, "renamed_imports": renamed, "files": len(files)}
	return out
}

func isConstFolded(path string) bool { return path == "math" }

func describe(o types.Object, funcScopes map[*types.Scope]string, tpkg *types.Package) string {
	switch v := o.(type) {
	case *types.Var:
		if v.Parent() != nil && funcScopes[v.Parent()] != "" {
			return "a parameter or result"
		}
		if tpkg != nil && v.Parent() == tpkg.Scope() {
			return "a package-level variable"
		}
		return "a local variable"
	case *types.Const:
		return "a constant"
	case *types.TypeName:
		return "a type"
	case *types.Func:
		return "a function"
	}
	return fmt.Sprintf("%T", o)
}

func progShort(p *prog.Program) any {
	if p.Corpus != "" {
		return "corpus:" + p.Corpus
	}
	n := 0
	for _, f := range p.Files {
		n += strings.Count(f.Text, "\n")
	}
	return map[string]any{"synthetic_files": len(p.Files), "lines": n, "xgo_packages": len(p.XGo), "package": p.PkgName, "force_imports": p.ForceImports}
}

func simplify(rec any) []any {
	r := rec.(*Record)
	var out []any
	for _, p := range gencommon.SimplifyProgram(r.Prog) {
		c := *r
		c.Prog = p
		out = append(out, &c)
	}
	for _, f := range gencommon.SimplifyFront(r.Front) {
		c := *r
		c.Front = f
		out = append(out, &c)
	}
	if len(r.MapOrder) > 0 {
		c := *r
		c.MapOrder = nil
		out = append(out, &c)
	}
	if r.MapDflt != 0 {
		c := *r
		c.MapDflt = 0
		out = append(out, &c)
	}
	return out
}

func TestSim(t *testing.T) {
	e := &core.Engine{Property: P, Gen: gen, NewRecord: func() any { return &Record{} }, Exec: exec1, Simplify: simplify, Deterministic: true}
	e.Extra = func() map[string]any { return map[string]any{"corpus_packages_admitted": env.Paths} }
	core.Main(t, e)
}
