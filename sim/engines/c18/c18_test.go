package c18

import (
	"bytes"
	"encoding/json"
	"fmt"
	"os"
	osexec "os/exec"
	"path/filepath"
	"sort"
	"strings"
	"testing"

	"pgregory.net/rapid"

	"github.com/goplus/gogen"
	"github.com/goplus/gogen/verifhook"

	"gogenverif/sim/baton"
	"gogenverif/sim/core"
	"gogenverif/sim/fprint"
	"gogenverif/sim/gencommon"
	"gogenverif/sim/minicl"
	"gogenverif/sim/prog"
	"gogenverif/sim/run"
	"gogenverif/sim/seams"
)

const P = "C18"
const maxTasks = 4

type TaskRec struct {
	Prog    *prog.Program `json:"program"`
	Front   *run.Front    `json:"front"`
	Preempt []int         `json:"preempt,omitempty"` // function-entry yield counts at which this task is preempted
	Coarse  bool          `json:"coarse"`            // yield before every builder operation
}

type Record struct {
	Tasks      []TaskRec `json:"tasks"`
	Sched      []int     `json:"sched"`
	MapDflt    int       `json:"map_default"`
	PoolDflt   int       `json:"pool_default"`
	SharedConf int       `json:"shared_conf,omitempty"` // > 0: that many small packages are created from ONE *gogen.Config whose Importer and Fset are nil (each package then gets gogen's own default importer, which runs the listing command)
	Cold       bool      `json:"cold,omitempty"`        // race build: the record is also executed in a fresh OS process whose very first builds are the concurrent ones (lazily initialised package-level state is still untouched)
	ConcFirst  bool      `json:"conc_first,omitempty"`  // the concurrent run comes before the sequential baseline (so that first-use writes happen while packages build concurrently)
}

var env *run.Env

// go/types' Universe and Unsafe scopes as they were before the first build of this process
var sharedAtStart string

func sharedInvariant() (string, string) {
	if singletonsAtStart != nil {
		for _, e := range fprint.Diff(singletonsAtStart, fprint.Snapshot()) {
			if fprint.Singleton(e.Kind) && e.Name != "printerPool" && e.Pkg != "go/types" {
				return "shared-singleton-mutated:" + e.Pkg + "." + e.Name, "a package-level node or object of gogen differs from what it was before the first build of this process: " + e.Pkg + "." + e.Name
			}
		}
	}
	if now := run.SharedScopes(); now != sharedAtStart {
		return "go-types-shared-scope-mutated", "a build changed go/types' process-wide Universe or Unsafe scope: " + diffNames(sharedAtStart, now)
	}
	return "", ""
}

func diffNames(a, b string) string {
	have := map[string]bool{}
	for _, n := range strings.FieldsFunc(a, func(r rune) bool { return r == ',' || r == '|' }) {
		have[n] = true
	}
	var extra []string
	for _, n := range strings.FieldsFunc(b, func(r rune) bool { return r == ',' || r == '|' }) {
		if !have[n] {
			extra = append(extra, n)
		}
	}
	return "new names " + strings.Join(extra, ",")
}

// fingerprint of every package-level node/object of gogen before the first build of the process
var singletonsAtStart []fprint.Entry

func TestMain(m *testing.M) {
	sharedAtStart = run.SharedScopes()
	if !raceBuild {
		singletonsAtStart = fprint.Snapshot()
	}
	var err error
	if cold := os.Getenv("VERIF_C18_COLD"); cold != "" {
		// cold child: no corpus dry run, no baseline first - the first builds of this process
		// are the concurrent ones of the record
		env, err = run.NewEnv(false)
		if err != nil {
			fmt.Fprintln(os.Stderr, "c18 cold:", err)
			os.Exit(2)
		}
		b, _ := os.ReadFile(cold)
		r := &Record{}
		if json.Unmarshal(b, r) != nil {
			os.Exit(2)
		}
		r.ConcFirst, r.Cold = true, false
		out := exec1(r)
		for _, v := range out.Violations {
			d, _ := json.Marshal([2]string{v.Key, v.Detail})
			fmt.Printf("COLD-VIOLATION %s\n", d)
		}
		os.Exit(0)
	}
	env, err = run.NewEnv(true)
	if err != nil {
		fmt.Fprintln(os.Stderr, "c18:", err)
		os.Exit(2)
	}
	m.Run()
	os.Exit(core.ExitCode())
}

var c18Constructs = []string{"vblock", "inline_closure", "bigint_op", "unit_lit", "unsafe_ref", "bti_call", "generic_decl", "generic_inst"}

func gen(rt *rapid.T) any {
	r := &Record{}
	// (race build only: the tasks run one at a time, so without the detector a shared
	// importer cannot show; each such record runs the real listing command 8 to 12 times)
	if raceBuild && rapid.IntRange(0, 39).Draw(rt, "shared_conf") == 0 {
		r.SharedConf = rapid.IntRange(2, 3).Draw(rt, "nshared")
		for i := rapid.IntRange(0, 12).Draw(rt, "nsched"); i > 0; i-- {
			r.Sched = append(r.Sched, rapid.IntRange(0, maxTasks-1).Draw(rt, "pick"))
		}
		return r
	}
	n := rapid.IntRange(2, maxTasks).Draw(rt, "ntasks")
	same := rapid.IntRange(0, 2).Draw(rt, "same_program") == 0
	var first *prog.Program
	common, commonArg := "", 0
	if rapid.IntRange(0, 1).Draw(rt, "common_construct") == 0 {
		common = rapid.SampledFrom(c18Constructs).Draw(rt, "common_kind")
		commonArg = rapid.IntRange(0, 11).Draw(rt, "common_arg")
	}
	for i := 0; i < n; i++ {
		var p *prog.Program
		if same && first != nil {
			p = first
			if t := prog.Twin(first); t != nil && rapid.Bool().Draw(rt, "twin") {
				p = t // another revision of the same dependencies, built concurrently
			}
		} else {
			p = gencommon.Program(rt, gencommon.ProgramSpec{CorpusShare: 3, Lib: 5, MaxXGo: 3, Budget: 40, MaxDepth: 3, MaxDecls: 6}, env.Paths)
			first = p
		}
		t := TaskRec{Prog: p}
		t.Front = gencommon.Front(rt, gencommon.FrontSpec{Faults: []string{"discard_ref", "abort_stmt", "abort_init", "callex_err"}, MaxFaults: 2, Constructs: c18Constructs, FileAssign: false})
		if common != "" {
			// every task of the record performs the same construct early in several bodies:
			// package-level state that only one construct touches is reached by two tasks
			// of one run (a race needs both)
			for u := 0; u < 6; u++ {
				t.Front.Faults = append(t.Front.Faults, run.Fault{Unit: u, Stmt: u % 2, Kind: common, Arg: commonArg + u})
			}
		}
		t.Coarse = rapid.IntRange(0, 3).Draw(rt, "coarse") != 0
		np := rapid.IntRange(0, 4).Draw(rt, "npre")
		for j := 0; j < np; j++ {
			t.Preempt = append(t.Preempt, rapid.IntRange(1, 60000).Draw(rt, "preempt"))
		}
		r.Tasks = append(r.Tasks, t)
	}
	ns := rapid.IntRange(0, 200).Draw(rt, "nsched")
	for i := 0; i < ns; i++ {
		r.Sched = append(r.Sched, rapid.IntRange(0, maxTasks-1).Draw(rt, "pick"))
	}
	r.MapDflt = rapid.IntRange(0, 5).Draw(rt, "mapdflt")
	r.PoolDflt = rapid.IntRange(-1, 1).Draw(rt, "pooldflt")
	r.ConcFirst = rapid.IntRange(0, 2).Draw(rt, "conc_first") == 0
	r.Cold = raceBuild && rapid.IntRange(0, 2).Draw(rt, "cold") == 0
	return r
}

type taskRun struct {
	rec     *TaskRec
	t       *baton.Task
	res     *run.Result
	ops     []string
	preempt [8]int
	npre    int
}

type concRun struct {
	s     *baton.Sched
	tasks [maxTasks]*taskRun
	n     int
}

//go:norace
func (c *concRun) yieldHook(id int) {
	t := c.s.Running()
	if t == nil || t.ID >= c.n {
		return
	}
	tr := c.tasks[t.ID]
	k := t.IncFine()
	for i := 0; i < tr.npre; i++ {
		if tr.preempt[i] == k {
			t.Yield()
			return
		}
	}
}

func digestFiles(r *run.Result) string {
	var parts []string
	for _, n := range r.Names {
		parts = append(parts, n, string(r.Files[n]), r.WriteErr[n])
	}
	return core.Hash(parts...)
}

func sortedDiags(r *run.Result) string {
	d := append([]string(nil), r.Diags...)
	sort.Strings(d)
	return strings.Join(d, "\n")
}

var saltCounter int

// solo builds one task alone, under synthetic import paths of its own.
func solo(t *TaskRec) *run.Result {
	saltCounter++
	return env.BuildSalted(t.Prog, t.Front, nil, saltCounter)
}

var raceBuild = verifhook.RaceEnabled

// smallBuild builds a tiny package directly through the builder API (no front end) from
// conf; yield is called between the steps.
func smallBuild(conf *gogen.Config, k int, yield func()) (text string, err string) {
	defer func() {
		if rr := recover(); rr != nil {
			err = fmt.Sprint(rr)
		}
	}()
	pkg := gogen.NewPackage("", "main", conf)
	yield()
	fmtp := pkg.Import("fmt")
	yield()
	strs := pkg.Import("strings")
	yield()
	cb := pkg.NewFunc(nil, "main", nil, nil, false).BodyStart(pkg)
	cb.Val(fmtp.Ref("Println")).Val(strs.Ref("ToUpper")).Val(fmt.Sprintf("x%d", k)).Call(1).Val(k).Call(2).EndStmt()
	yield()
	cb.End()
	var buf bytes.Buffer
	if e := pkg.WriteTo(&buf); e != nil {
		return "", e.Error()
	}
	return buf.String(), ""
}

// smallBase caches the sequential baseline of smallBuild (a fresh Config each).
var smallBase [maxTasks]string

// execSharedConf: packages created from one Config with a nil Importer each get their own
// default importer (the listing command really runs); built concurrently they must not
// share anything.
func execSharedConf(r *Record) *core.Outcome {
	out := &core.Outcome{}
	n := r.SharedConf
	if n > maxTasks {
		n = maxTasks
	}
	var base []string
	for i := 0; i < n; i++ {
		if smallBase[i] == "" {
			txt, e := smallBuild(&gogen.Config{}, i, func() {})
			if e != "" {
				out.Observe("default_importer_unavailable")
				out.HistHash, out.ObsHash = "noimporter", "noimporter"
				return out
			}
			smallBase[i] = txt
		}
		base = append(base, smallBase[i])
	}
	conf := &gogen.Config{}
	s := baton.New()
	texts := make([]string, n)
	errs := make([]string, n)
	for i := 0; i < n; i++ {
		i := i
		s.Go(func(t *baton.Task) { texts[i], errs[i] = smallBuild(conf, i, t.Yield) })
	}
	sched := r.Sched
	s.Pick = func(step int, runnable []int, last int) int {
		if step < len(sched) {
			return runnable[sched[step]%len(runnable)]
		}
		for _, x := range runnable {
			if x > last {
				return x
			}
		}
		return runnable[0]
	}
	s.Run()
	out.Ops, out.Steps = 6*n, s.Steps
	out.HistHash = core.Hash(fmt.Sprint(n, r.Sched))
	out.ObsHash = core.Hash(texts...)
	out.Probe("shared_config_nil_importer_run")
	for i := 0; i < n; i++ {
		if errs[i] != "" {
			out.Violate(P, "shared-config-build-fails", fmt.Sprintf("package %d of %d created from one Config (nil Importer) failed when built concurrently: %s", i, n, errs[i]))
			return out
		}
		if texts[i] != base[i] {
			out.Violate(P, "output-differs-from-sequential", fmt.Sprintf("package %d of %d created from one Config (nil Importer): %s", i, n, firstDiff([]byte(base[i]), []byte(texts[i]))))
			return out
		}
	}
	out.Shape = core.Hash("sharedconf", fmt.Sprint(n, s.Trace))
	out.Nontrivial = false
	return out
}

// coldChild executes the record in a fresh OS process (this test binary again) in which
// nothing has been built before, under the race detector, and reports what it found.
func coldChild(r *Record, out *core.Outcome) {
	for _, t := range r.Tasks {
		if t.Prog == nil || t.Prog.Corpus != "" {
			return // corpus packages need the admission dry run, which warms everything up
		}
	}
	dir, err := os.MkdirTemp(os.Getenv("VERIF_SCRATCH"), "c18cold")
	if err != nil {
		return
	}
	defer os.RemoveAll(dir)
	b, _ := json.Marshal(r)
	rf := filepath.Join(dir, "record.json")
	os.WriteFile(rf, b, 0o644)
	cmd := osexec.Command(os.Args[0], "-test.run=^$")
	cmd.Env = append(os.Environ(), "VERIF_C18_COLD="+rf, "GORACE=log_path="+filepath.Join(dir, "race")+" halt_on_error=0 history_size=5")
	var so bytes.Buffer
	cmd.Stdout = &so
	var se bytes.Buffer
	cmd.Stderr = &se
	// (exit status 66 is the race detector's way of saying that it reported something)
	if err := cmd.Run(); err != nil && cmd.ProcessState.ExitCode() != 66 {
		if dbg := os.Getenv("VERIF_COLD_DEBUG"); dbg != "" {
			os.WriteFile(dbg, append([]byte(err.Error()+"\n"+so.String()+"\n"), se.Bytes()...), 0o644)
		}
		out.Observe("cold_child_failed")
		return
	}
	out.Probe("cold_process_runs")
	for _, l := range strings.Split(so.String(), "\n") {
		if strings.HasPrefix(l, "COLD-VIOLATION ") {
			var kv [2]string
			if json.Unmarshal([]byte(l[len("COLD-VIOLATION "):]), &kv) == nil {
				out.Violate(P, kv[0], "in a fresh process whose first builds are the concurrent ones: "+kv[1])
				return
			}
		}
	}
	logs, _ := filepath.Glob(filepath.Join(dir, "race*"))
	for _, lf := range logs {
		rep, _ := os.ReadFile(lf)
		if !bytes.Contains(rep, []byte("DATA RACE")) {
			continue
		}
		key, harnessOnly := core.RaceKey(string(rep))
		if harnessOnly {
			out.Observe("cold_child_harness_race")
			continue
		}
		if len(rep) > 6000 {
			rep = rep[:6000]
		}
		out.Violate(P, key, "in a fresh process whose first builds are the concurrent ones:\n"+string(rep))
		return
	}
}

func exec1(rec any) *core.Outcome {
	r := rec.(*Record)
	if r.SharedConf > 0 {
		return execSharedConf(r)
	}
	if r.Cold && raceBuild && os.Getenv("VERIF_C18_COLD") == "" {
		out := exec1Warm(r)
		if len(out.Violations) == 0 {
			coldChild(r, out)
		}
		return out
	}
	return exec1Warm(r)
}

func exec1Warm(r *Record) *core.Outcome {
	out := &core.Outcome{}
	tp := &seams.Tapes{Default: r.MapDflt, PoolDflt: r.PoolDflt}
	seams.Install(tp)
	defer seams.Uninstall()
	if len(r.Tasks) > maxTasks {
		r.Tasks = r.Tasks[:maxTasks]
	}
	// sequential baseline: every task alone, before the concurrent run (or, for ConcFirst
	// records, after it: the loop below then only checks that the programs are valid)
	var before []*run.Result
	for i := range r.Tasks {
		if r.ConcFirst {
			if b := env.Probe(r.Tasks[i].Prog); b != nil {
				out.Observe("invalid_program_discarded")
				out.HistHash, out.ObsHash = "invalid", "invalid"
				return out
			}
			continue
		}
		b := solo(&r.Tasks[i])
		if b.LoadErr != nil {
			out.Observe("invalid_program_discarded")
			out.HistHash, out.ObsHash = "invalid", "invalid"
			return out
		}
		before = append(before, b)
	}
	var base []fprint.Entry
	if !raceBuild {
		base = fprint.Snapshot()
	}
	defer func() {
		if r.ConcFirst {
			out.Probe("concurrent_run_before_baseline")
		}
	}()
	saltCounter++
	shared := saltCounter // the concurrent builds share their synthetic import paths
	c := &concRun{s: baton.New(), n: len(r.Tasks)}
	c.s.MaxSteps = 400000
	for i := range r.Tasks {
		tr := &taskRun{rec: &r.Tasks[i]}
		for _, p := range tr.rec.Preempt {
			if tr.npre < len(tr.preempt) {
				tr.preempt[tr.npre] = p
				tr.npre++
			}
		}
		c.tasks[i] = tr
		tr.t = c.s.Go(func(t *baton.Task) {
			hooks := &minicl.Hooks{}
			hooks.Before = func(op string) {
				tr.ops = append(tr.ops, op)
				if tr.rec.Coarse {
					t.Yield()
				}
			}
			tr.res = env.BuildSalted(tr.rec.Prog, tr.rec.Front, hooks, shared)
		})
	}
	sched := r.Sched
	c.s.Pick = func(step int, runnable []int, last int) int {
		if step < len(sched) {
			return runnable[sched[step]%len(runnable)]
		}
		// tape exhausted: round robin keeps all packages in flight
		for _, x := range runnable {
			if x > last {
				return x
			}
		}
		return runnable[0]
	}
	var mutated []fprint.Entry
	mutStep := -1
	if !raceBuild {
		c.s.OnStep = func(step, ran int) {
			if mutStep >= 0 || step%16 != 0 {
				return
			}
			if d := fprint.Diff(base, fprint.Snapshot()); len(d) > 0 {
				mutated, mutStep = d, step
			}
		}
	}
	verifhook.YieldHook = c.yieldHook
	c.s.Run()
	verifhook.YieldHook = nil
	if !raceBuild && mutStep < 0 {
		if d := fprint.Diff(base, fprint.Snapshot()); len(d) > 0 {
			mutated, mutStep = d, c.s.Steps
		}
	}
	// history
	var hh []string
	nops := 0
	for i := 0; i < c.n; i++ {
		tr := c.tasks[i]
		hh = append(hh, core.Hash(tr.ops...))
		nops += len(tr.ops)
		if tr.t.Panic != nil {
			out.Violate(P, "harness-task-panic", fmt.Sprintf("task %d: %v\n%s", i, tr.t.Panic, tr.t.Stack))
			return out
		}
	}
	out.HistHash = core.Hash(hh...)
	out.Ops = nops
	out.Steps = c.s.Steps
	trace := make([]string, len(c.s.Trace))
	switches := 0
	for i, x := range c.s.Trace {
		trace[i] = fmt.Sprint(x)
		if i > 0 && c.s.Trace[i-1] != x {
			switches++
		}
	}
	out.Sched = core.Hash(trace...)
	out.ProbeN("task_switches", switches)
	if c.s.Capped {
		out.Inconclusive = "step_cap"
	}
	if r.ConcFirst {
		for i := range r.Tasks {
			before = append(before, solo(&r.Tasks[i]))
		}
	}
	// oracle 2: sequential equivalence, per package
	var oh []string
	for i := 0; i < c.n; i++ {
		tr := c.tasks[i]
		b := before[i]
		for k, n := range tr.res.FaultFired {
			for j := 0; j < n; j++ {
				out.Fault(k)
			}
		}
		if (tr.res.Rejected == "") != (b.Rejected == "") {
			out.Violate(P, "acceptance-differs-from-sequential", fmt.Sprintf("package %d: alone rejected=%q, built concurrently rejected=%q", i, b.Rejected, tr.res.Rejected))
			return out
		}
		if b.Rejected != "" {
			out.Observe("program_rejected_by_gogen")
			oh = append(oh, "rejected")
			continue
		}
		if strings.Join(tr.res.Names, ",") != strings.Join(b.Names, ",") {
			out.Violate(P, "file-set-differs-from-sequential", fmt.Sprintf("package %d: files %v alone, %v concurrently", i, b.Names, tr.res.Names))
			return out
		}
		for _, n := range b.Names {
			if string(b.Files[n]) != string(tr.res.Files[n]) || b.WriteErr[n] != tr.res.WriteErr[n] {
				out.Violate(P, "output-differs-from-sequential", fmt.Sprintf("package %d file %s: built concurrently with %d other package(s) the bytes differ from a sequential build: %s",
					i, n, c.n-1, firstDiff(b.Files[n], tr.res.Files[n])))
				return out
			}
		}
		if sortedDiags(b) != sortedDiags(tr.res) {
			out.Violate(P, "diagnostics-differ-from-sequential", fmt.Sprintf("package %d: diagnostics alone %q, concurrently %q", i, sortedDiags(b), sortedDiags(tr.res)))
			return out
		}
		oh = append(oh, digestFiles(tr.res))
		out.ProbeN("overload_family_calls", tr.res.C.Overloaded)
	}
	// ... and after it: contamination left behind by the concurrent run
	for i := range r.Tasks {
		a := solo(&r.Tasks[i])
		if before[i].Rejected != "" || a.Rejected != "" {
			if (before[i].Rejected == "") != (a.Rejected == "") {
				out.Violate(P, "acceptance-differs-after-concurrent-run", fmt.Sprintf("package %d: rejected=%q before, %q after the concurrent run", i, before[i].Rejected, a.Rejected))
				return out
			}
			continue
		}
		if digestFiles(a) != digestFiles(before[i]) {
			out.Violate(P, "output-differs-after-concurrent-run", fmt.Sprintf("package %d: a sequential build after the concurrent run differs from the one before it", i))
			return out
		}
	}
	out.ObsHash = core.Hash(oh...)
	// oracle 3: shared package-level state
	if len(mutated) > 0 {
		var names []string
		single := false
		for _, e := range mutated {
			names = append(names, e.Pkg+"."+e.Name)
			if fprint.Singleton(e.Kind) && e.Name != "printerPool" {
				single = true
			}
		}
		if single {
			out.Violate(P, "shared-singleton-mutated:"+names[0], fmt.Sprintf("package-level state changed during the concurrent run (first seen at scheduler step %d): %v", mutStep, names))
			return out
		}
		for _, n := range names {
			out.Observe("shared_table_changed:" + n)
		}
	} else if !raceBuild {
		out.Probe("fingerprint_unchanged")
	}
	var shape []string
	for _, t := range r.Tasks {
		shape = append(shape, t.Prog.Corpus, fmt.Sprint(len(t.Prog.Files)))
	}
	out.Shape = core.Hash(append(shape, out.Sched, out.HistHash)...)
	out.Nontrivial = nops >= 40 && switches >= 4
	out.Sample = map[string]any{"packages": c.n, "operations": nops, "scheduler_steps": c.s.Steps, "task_switches": switches,
		"programs": progShorts(r), "race_detector": raceBuild}
	return out
}

func firstDiff(a, b []byte) string {
	la, lb := strings.Split(string(a), "\n"), strings.Split(string(b), "\n")
	for i := 0; i < len(la) && i < len(lb); i++ {
		if la[i] != lb[i] {
			return fmt.Sprintf("line %d: %q vs %q", i+1, la[i], lb[i])
		}
	}
	return fmt.Sprintf("%d vs %d lines", len(la), len(lb))
}

func progShorts(r *Record) []any {
	var out []any
	for _, t := range r.Tasks {
		if t.Prog.Corpus != "" {
			out = append(out, "corpus:"+t.Prog.Corpus)
		} else {
			out = append(out, fmt.Sprintf("synthetic %d files, %d xgo packages", len(t.Prog.Files), len(t.Prog.XGo)))
		}
	}
	return out
}

func simplify(rec any) []any {
	r := rec.(*Record)
	var out []any
	clone := func() *Record {
		c := *r
		c.Tasks = append([]TaskRec(nil), r.Tasks...)
		c.Sched = append([]int(nil), r.Sched...)
		return &c
	}
	if len(r.Tasks) > 2 {
		for i := range r.Tasks {
			c := clone()
			c.Tasks = append(c.Tasks[:i], c.Tasks[i+1:]...)
			out = append(out, c)
		}
	}
	if len(r.Sched) > 0 {
		c := clone()
		c.Sched = nil
		out = append(out, c)
		c = clone()
		c.Sched = c.Sched[:len(c.Sched)/2]
		out = append(out, c)
	}
	for i, t := range r.Tasks {
		for _, p := range gencommon.SimplifyProgram(t.Prog) {
			c := clone()
			c.Tasks[i].Prog = p
			out = append(out, c)
		}
		for _, f := range gencommon.SimplifyFront(t.Front) {
			c := clone()
			c.Tasks[i].Front = f
			out = append(out, c)
		}
		if len(t.Preempt) > 0 {
			c := clone()
			c.Tasks[i].Preempt = nil
			out = append(out, c)
		}
	}
	return out
}

func TestSim(t *testing.T) {
	e := &core.Engine{Property: P, Gen: gen, NewRecord: func() any { return &Record{} }, Exec: exec1, Simplify: simplify, Deterministic: true, Invariant: sharedInvariant}
	e.Extra = func() map[string]any {
		return map[string]any{"corpus_packages_admitted": env.Paths, "package_level_variables_fingerprinted": len(verifhook.Globals()), "race_build": raceBuild}
	}
	core.Main(t, e)
}
