package c19

import (
	"fmt"
	"go/ast"
	"go/importer"
	"go/parser"
	"go/token"
	"go/types"
	"sort"
	"strings"

	"github.com/goplus/gogen/typeutil"
)

// The key universe: type objects built so that many of them are identical without being
// the same object (the equivalence classes the map is supposed to be keyed by), and
// families of non-identical types that share a hash bucket.

const universeSrc = `package u

type N1 int
type N2 struct{ A int; B string }
type List[T any] struct{ v T; next *List[T] }
type Pair[K comparable, V any] struct{ k K; v V }

type I1 interface{ M(int) string; N() }
type I2 interface{ N(); M(int) string }
type E1 interface{ M(int) string }
type E2 interface{ N() }
type I3 interface{ E1; E2 }
type I4 interface{ E2; E1 }

type R1 interface{ Next() R1; Val(R2) int }
type R2 interface{ Val(R2) int; Next() R1 }
type M1 interface{ ~int | ~int8; String() string }
type M2 interface{ String() string; ~int8 | ~int }
type K1 interface{ comparable; M() }
type K2 interface{ M(); comparable }

type X1 interface{ F(*int, []string, [3]int, map[string]int, chan int) (func(), error); G(...int) }
type X2 interface{ G(...int); F(*int, []string, [3]int, map[string]int, chan int) (func(), error) }
type X3 interface{ F(*int, []string, [4]int, map[string]int, chan int) (func(), error); G(...int) }
type X4 interface{ F(*N1, []N2) N1 }
type X5 interface{ F(*N1, []N2) N1 }

type C1 interface{ ~int | ~string }
type C2 interface{ ~string | ~int }
type C3 interface{ int | string }

func G1[T any](x T) T { return x }
func G2[U any](y U) U { return y }
func G3[T comparable](x T) T { return x }
func G4[A, B any](a A, b B) (B, A) { return b, a }
func G5[X, Y any](x X, y Y) (Y, X) { return y, x }
func G6[T C1](x T) T { return x }
func G7[U C2](x U) U { return x }
func G8[T any, S interface{ ~[]T }](s S) T { var z T; return z }
func G9[E any, L interface{ ~[]E }](l L) E { var z E; return z }
func G10[K comparable, M interface{ ~map[K]V }, V any](m M) (K, V) { var k K; var v V; return k, v }
func G11[A comparable, B interface{ ~map[A]C }, C any](m B) (A, C) { var k A; var v C; return k, v }
func G12[T interface{ Less(T) bool }](a, b T) bool { return a.Less(b) }
func G13[U interface{ Less(U) bool }](a, b U) bool { return a.Less(b) }
func G14[P interface{ *Q }, Q any](p P) Q { var z Q; return z }
func G15[X interface{ *Y }, Y any](p X) Y { var z Y; return z }

func (l *List[T]) Push(v T) *List[T] { return l }
func (l *List[T]) Each(f func(T) bool) {}
func (p Pair[K, V]) Swap() Pair[K, K] { var z Pair[K, K]; return z }

// aliases of named types and of instantiations, in every position in which a type can
// occur (identical to the spelling with the target)
type AN1 = N1
type AN2 = N2
type AAN1 = AN1
type AL = List[int]
type AI1 = I1
type IA1 interface{ M(N1) N2 }
type IA2 interface{ M(AN1) AN2 }
type IA3 interface{ M(AAN1) N2 }
type IA4 interface{ F(List[int]) I1 }
type IA5 interface{ F(AL) AI1 }
type IA6 interface{ G(x ...N1); H() (N2, error) }
type IA7 interface{ H() (AN2, error); G(x ...AN1) }

var (
	an1  struct{ f N1; g *N2 }
	an2  struct{ f AN1; g *AN2 }
	an3  map[N1][]N2
	an4  map[AN1][]AN2
	an5  func(N1, ...N2) List[int]
	an6  func(AN1, ...AN2) AL
	an7  interface{ M(N1) N2 }
	an8  interface{ M(AN1) AN2 }
	an9  chan [2]N1
	an10 chan [2]AAN1
	an11 interface{ F(func(N1) []N2) }
	an12 interface{ F(func(AN1) []AN2) }
	an13 List[N1]
	an14 List[AN1]
	an15 Pair[N1, List[int]]
	an16 Pair[AAN1, AL]
)

type A1 = []int
type A2 = map[string][]int
type A3 = N2
type A4 = func(int, ...string) error

var (
	l1 List[int]
	l2 List[int]
	l3 List[string]
	p1 Pair[string, int]
	p2 Pair[string, int]
	p3 Pair[int, string]
	f1 func(int, ...string) error
	f2 func(int, ...string) error
	f3 func(int, []string) error
	s1 struct{ A int; B string }
	s2 struct{ A int; B string }
	s3 struct{ A int; B string "tag" }
	s4 struct{ B string; A int }
	s5 struct{ N1; x int }
	s6 struct{ N1; x int }
	m1 map[string][]int
	m2 map[string][]int
	c1 chan int
	c2 <-chan int
	c3 chan<- int
	c4 chan int
	i1 interface{ M(int) string; N() }
	i2 interface{ N(); M(int) string }
	i3 interface{}
	i4 any
	i5 interface{ E1; N() }
	a1 [3]int8
	a2 [0]int32
	a3 [3]int8
	pp1 **int
	pp2 **int
	fn1 func(func(int) int) func() int
	fn2 func(func(int) int) func() int
	ir1 interface{ Next() R1; Val(R2) int }
	ir2 interface{ Val(R2) int; Next() R1 }
	ch5 chan chan<- int
	ch6 chan (chan<- int)
	ch7 chan<- chan int
	ch8 chan<- (chan int)
	fv1 func(...int)
	fv2 func([]int)
	fv3 func(...int)
)
`

// genericShapes: positions in which a type parameter can occur inside a generic signature.
// Every shape is emitted as two functions that differ only in the names of their type
// parameters (identical signatures), in both packages; %[1]s / %[2]s are the parameters.
var genericShapes = []string{
	"%[1]s", "[]%[1]s", "*%[1]s", "[3]%[1]s", "map[%[2]s]%[1]s", "chan %[1]s", "<-chan %[1]s", "func(%[1]s) %[2]s", "func(...%[1]s)",
	"struct{ f %[1]s; g %[2]s }", "List[%[1]s]", "*List[%[1]s]", "[]List[%[1]s]", "List[List[%[1]s]]", "List[[]%[1]s]", "Pair[%[2]s, %[1]s]",
	"Pair[%[2]s, List[%[1]s]]", "map[%[2]s]List[%[1]s]", "interface{ M(%[1]s) %[2]s }", "func(List[%[1]s]) Pair[%[2]s, %[2]s]", "List[func(%[1]s) %[2]s]",
	"List[struct{ f %[1]s }]", "Pair[%[2]s, *Pair[%[2]s, %[1]s]]", "List[chan %[1]s]", "List[map[%[2]s][]%[1]s]",
}

func generatedGenericSrc() string {
	var b strings.Builder
	for i, sh := range genericShapes {
		for v, names := range [][2]string{{"T", "K"}, {"U", "A"}, {"K", "T"}} {
			a, k := names[0], names[1]
			t := fmt.Sprintf(sh, a, k)
			// the shape as parameter and as result; K is comparable so that it may be a map key
			fmt.Fprintf(&b, "func GS%d_%d[%s any, %s comparable](x %s) (r %s) { return }\n", i, v, a, k, t, t)
		}
		// both parameters swapped in the declaration order: NOT identical to the ones above
		// unless the shape uses one parameter only (index-based hashing must not conflate them)
		fmt.Fprintf(&b, "func GR%d[K comparable, T any](x %s) (r %s) { return }\n", i, fmt.Sprintf(sh, "T", "K"), fmt.Sprintf(sh, "T", "K"))
	}
	return b.String()
}

type universe struct {
	types []types.Type
	names []string
	// classes[i] = index of the first type identical to types[i]
	class      []int
	collisions [][]int // groups of pairwise non-identical types with equal hash
	identPairs int
}

func buildUniverse() (*universe, error) {
	fset := token.NewFileSet()
	universeSrc := universeSrc + generatedGenericSrc()
	f, err := parser.ParseFile(fset, "u.go", universeSrc, 0)
	if err != nil {
		return nil, err
	}
	conf := types.Config{Importer: importer.Default()}
	pkg, err := conf.Check("example.com/u", fset, []*ast.File{f}, nil)
	if err != nil {
		return nil, err
	}
	// the same source checked again: every structural type exists a second time as a
	// distinct object; named types of the second package are different types
	f2, _ := parser.ParseFile(fset, "u2.go", universeSrc, 0)
	pkg2, err := (&types.Config{Importer: importer.Default()}).Check("example.com/u", fset, []*ast.File{f2}, nil)
	if err != nil {
		return nil, err
	}
	u := &universe{}
	add := func(name string, t types.Type) {
		u.types = append(u.types, t)
		u.names = append(u.names, name)
	}
	for _, p := range []*types.Package{pkg, pkg2} {
		tag := "a:"
		if p == pkg2 {
			tag = "b:"
		}
		sc := p.Scope()
		for _, n := range sc.Names() {
			o := sc.Lookup(n)
			add(tag+n, o.Type())
			switch t := o.Type().(type) {
			case *types.Named:
				add(tag+"*"+n, types.NewPointer(t))
				add(tag+"[]"+n, types.NewSlice(t))
				if t.TypeParams().Len() == 0 {
					add(tag+n+".underlying", t.Underlying())
				}
			case *types.Signature:
				add(tag+"*"+n, types.NewPointer(t))
			}
		}
		// instantiations created by hand, twice (no shared context)
		if list, ok := sc.Lookup("List").Type().(*types.Named); ok {
			for k := 0; k < 2; k++ {
				if inst, err := types.Instantiate(nil, list, []types.Type{types.Typ[types.Int]}, false); err == nil {
					add(fmt.Sprintf("%sList[int]#%d", tag, k), inst)
				}
				if inst, err := types.Instantiate(nil, list, []types.Type{types.NewSlice(types.Typ[types.String])}, false); err == nil {
					add(fmt.Sprintf("%sList[[]string]#%d", tag, k), inst)
				}
			}
		}
		// method signatures of instantiated generic types, reached through the method set of
		// two separately created instances (substituted signatures, distinct objects)
		for k, v := range []string{"l1", "l2", "l3", "p1", "p2", "p3"} {
			if o := sc.Lookup(v); o != nil {
				ms := types.NewMethodSet(types.NewPointer(o.Type()))
				for i := 0; i < ms.Len(); i++ {
					add(fmt.Sprintf("%s%s.%s#%d", tag, v, ms.At(i).Obj().Name(), k), ms.At(i).Type())
					add(fmt.Sprintf("%s%s.%s.obj#%d", tag, v, ms.At(i).Obj().Name(), k), ms.At(i).Obj().Type())
				}
			}
		}
		// unions built through the API (the checker rejects overlapping terms in source):
		// identical type sets written differently
		{
			ti, ts := types.Typ[types.Int], types.Typ[types.String]
			n1 := sc.Lookup("N1").Type()
			term := types.NewTerm
			for k, ts2 := range [][]*types.Term{
				{term(false, ti)}, {term(false, ti), term(false, ti)},
				{term(true, ti)}, {term(true, ti), term(false, ti)}, {term(false, n1), term(true, ti)},
				{term(false, ts), term(false, ti)}, {term(false, ti), term(false, ts), term(false, ti)},
				{term(true, ti), term(true, ts)}, {term(true, ts), term(true, ti), term(true, ts)},
			} {
				add(fmt.Sprintf("%sunion#%d", tag, k), types.NewUnion(ts2))
			}
		}
		// tuples: distinct objects with identical element types
		for k := 0; k < 2; k++ {
			add(fmt.Sprintf("%stuple(int,string)#%d", tag, k), types.NewTuple(types.NewVar(token.NoPos, p, "", types.Typ[types.Int]), types.NewVar(token.NoPos, p, "x", types.Typ[types.String])))
			add(fmt.Sprintf("%stuple()#%d", tag, k), types.NewTuple())
		}
		// aliases of structural types
		for k, t := range []types.Type{types.NewSlice(types.Typ[types.Int]), types.NewMap(types.Typ[types.String], types.Typ[types.Int])} {
			tn := types.NewTypeName(token.NoPos, p, fmt.Sprintf("Al%d", k), nil)
			add(fmt.Sprintf("%salias%d", tag, k), types.NewAlias(tn, t))
			add(fmt.Sprintf("%saliased%d", tag, k), t)
		}
	}
	// basics and small composites (collision material): hashes are small linear
	// combinations, so non-identical composites over basic kinds collide often
	var basics []types.Type
	for k := types.Bool; k <= types.UnsafePointer; k++ {
		basics = append(basics, types.Typ[k])
		add("basic:"+types.Typ[k].Name(), types.Typ[k])
	}
	for _, b := range basics {
		add("[]"+b.String(), types.NewSlice(b))
		add("*"+b.String(), types.NewPointer(b))
		for n := int64(0); n <= 8; n++ {
			add(fmt.Sprintf("[%d]%s", n, b), types.NewArray(b, n))
		}
		for d := types.SendRecv; d <= types.RecvOnly; d++ {
			add(fmt.Sprintf("chan%d %s", d, b), types.NewChan(d, b))
		}
	}
	for _, k := range []types.Type{types.Typ[types.String], types.Typ[types.Int]} {
		for _, v := range basics[:8] {
			add(fmt.Sprintf("map[%s]%s", k, v), types.NewMap(k, v))
		}
	}
	u.class = make([]int, len(u.types))
	for i := range u.types {
		u.class[i] = i
		for j := 0; j < i; j++ {
			if types.Identical(u.types[i], u.types[j]) {
				u.class[i] = u.class[j]
				u.identPairs++
				break
			}
		}
	}
	// collision groups among class representatives (by the public Hasher)
	h := typeutil.MakeHasher()
	byHash := map[uint32][]int{}
	for i := range u.types {
		// only address-free hashes: a named type hashes by the address of its TypeName,
		// so groups containing one would differ from process to process
		if u.class[i] == i && !hasNamed(u.types[i], 0) {
			hv := h.Hash(u.types[i])
			byHash[hv] = append(byHash[hv], i)
		}
	}
	var hs []uint32
	for hv, g := range byHash {
		if len(g) >= 2 {
			hs = append(hs, hv)
		}
	}
	sort.Slice(hs, func(a, b int) bool { return hs[a] < hs[b] })
	for _, hv := range hs {
		u.collisions = append(u.collisions, byHash[hv])
	}
	return u, nil
}

// hashLaw checks identical => equal hash on every pair of the universe.
func (u *universe) hashLaw() (bad string, pairs int) {
	h := typeutil.MakeHasher()
	hv := make([]uint32, len(u.types))
	for i, t := range u.types {
		hv[i] = h.Hash(t)
	}
	for i := range u.types {
		for j := 0; j < i; j++ {
			if types.Identical(u.types[i], u.types[j]) {
				pairs++
				if hv[i] != hv[j] && bad == "" {
					bad = fmt.Sprintf("%s (%v) and %s (%v) are identical types but hash to %d and %d", u.names[i], u.types[i], u.names[j], u.types[j], hv[i], hv[j])
				}
			}
		}
	}
	return
}

// hasNamed reports whether a type mentions a named type or type parameter anywhere.
func hasNamed(t types.Type, depth int) bool {
	if depth > 8 {
		return true
	}
	switch t := t.(type) {
	case *types.Basic:
		return false
	case *types.Alias:
		return true
	case *types.Named, *types.TypeParam:
		return true
	case *types.Pointer:
		return hasNamed(t.Elem(), depth+1)
	case *types.Slice:
		return hasNamed(t.Elem(), depth+1)
	case *types.Array:
		return hasNamed(t.Elem(), depth+1)
	case *types.Chan:
		return hasNamed(t.Elem(), depth+1)
	case *types.Map:
		return hasNamed(t.Key(), depth+1) || hasNamed(t.Elem(), depth+1)
	case *types.Struct:
		for i := 0; i < t.NumFields(); i++ {
			if hasNamed(t.Field(i).Type(), depth+1) {
				return true
			}
		}
		return false
	case *types.Tuple:
		for i := 0; i < t.Len(); i++ {
			if hasNamed(t.At(i).Type(), depth+1) {
				return true
			}
		}
		return false
	case *types.Signature:
		return t.TypeParams().Len() > 0 || hasNamed(t.Params(), depth+1) || hasNamed(t.Results(), depth+1)
	case *types.Interface:
		return t.NumMethods() > 0 || t.NumEmbeddeds() > 0
	}
	return true
}
