package c19

import (
	"fmt"
	"go/types"
	"os"
	"strings"
	"testing"

	"pgregory.net/rapid"

	"github.com/goplus/gogen/typeutil"
	"github.com/goplus/gogen/verifhook"

	"gogenverif/sim/baton"
	"gogenverif/sim/core"
	"gogenverif/sim/seams"
)

const P = "C19"

type Op struct {
	Kind string `json:"kind"` // set delete at len keys iterate string iterate_mutate nil_reads
	Key  int    `json:"key,omitempty"`
	Val  int    `json:"val,omitempty"`
	Muts []Mut  `json:"muts,omitempty"` // iterate_mutate: actions interleaved at callback points
}

// Mut is one mutator action performed inside the Iterate callback at visit number At.
type Mut struct {
	At   int    `json:"at"`
	Kind string `json:"kind"` // set delete
	Key  int    `json:"key"`
	Val  int    `json:"val"`
}

type Record struct {
	Ops      []Op    `json:"ops"`
	MapOrder []int   `json:"map_order,omitempty"`
	MapDflt  int     `json:"map_default"`
	Readers  [][]Op  `json:"readers,omitempty"` // concurrent read-only phase
	Sched    []int   `json:"sched,omitempty"`
	Preempt  [][]int `json:"preempt,omitempty"`
}

var uni *universe
var lawChecked bool

func TestMain(m *testing.M) {
	var err error
	uni, err = buildUniverse()
	if err != nil {
		fmt.Fprintln(os.Stderr, "c19: universe:", err)
		os.Exit(2)
	}
	m.Run()
	os.Exit(core.ExitCode())
}

func genKey(rt *rapid.T) int {
	// a third of the keys from colliding families
	if len(uni.collisions) > 0 && rapid.IntRange(0, 2).Draw(rt, "colliding") == 0 {
		g := uni.collisions[rapid.IntRange(0, len(uni.collisions)-1).Draw(rt, "group")]
		return g[rapid.IntRange(0, len(g)-1).Draw(rt, "member")]
	}
	// bias to the front (checked source: many identical-but-distinct objects)
	if rapid.IntRange(0, 1).Draw(rt, "front") == 0 {
		return rapid.IntRange(0, 199).Draw(rt, "key") % len(uni.types)
	}
	return rapid.IntRange(0, len(uni.types)-1).Draw(rt, "key")
}

func gen(rt *rapid.T) any {
	r := &Record{}
	n := rapid.IntRange(1, 80).Draw(rt, "nops")
	val := 0
	for i := 0; i < n; i++ {
		k := rapid.IntRange(0, 19).Draw(rt, "kind")
		val++
		switch {
		case k < 7:
			r.Ops = append(r.Ops, Op{Kind: "set", Key: genKey(rt), Val: val})
		case k < 11:
			r.Ops = append(r.Ops, Op{Kind: "delete", Key: genKey(rt)})
		case k < 14:
			r.Ops = append(r.Ops, Op{Kind: "at", Key: genKey(rt)})
		case k < 15:
			r.Ops = append(r.Ops, Op{Kind: "len"})
		case k < 16:
			r.Ops = append(r.Ops, Op{Kind: "keys"})
		case k < 17:
			r.Ops = append(r.Ops, Op{Kind: "iterate"})
		case k < 18:
			r.Ops = append(r.Ops, Op{Kind: "string"})
		case k < 19:
			op := Op{Kind: "iterate_mutate"}
			m := rapid.IntRange(1, 5).Draw(rt, "nmut")
			for j := 0; j < m; j++ {
				val++
				op.Muts = append(op.Muts, Mut{At: rapid.IntRange(0, 6).Draw(rt, "at"), Kind: rapid.SampledFrom([]string{"set", "delete", "delete"}).Draw(rt, "mkind"), Key: genKey(rt), Val: val})
			}
			r.Ops = append(r.Ops, op)
		default:
			r.Ops = append(r.Ops, Op{Kind: "nil_reads"})
		}
	}
	r.MapDflt = rapid.IntRange(0, 23).Draw(rt, "mapdflt")
	nm := rapid.IntRange(0, 10).Draw(rt, "nmo")
	for i := 0; i < nm; i++ {
		r.MapOrder = append(r.MapOrder, rapid.IntRange(0, 23).Draw(rt, "mo"))
	}
	if rapid.IntRange(0, 2).Draw(rt, "readers") == 0 {
		nr := rapid.IntRange(2, 4).Draw(rt, "nreaders")
		for t := 0; t < nr; t++ {
			var ops []Op
			m := rapid.IntRange(1, 8).Draw(rt, "nrops")
			for i := 0; i < m; i++ {
				ops = append(ops, Op{Kind: rapid.SampledFrom([]string{"at", "len", "keys", "iterate", "hash", "string"}).Draw(rt, "rkind"), Key: genKey(rt)})
			}
			r.Readers = append(r.Readers, ops)
			var pre []int
			for i := rapid.IntRange(0, 3).Draw(rt, "npre"); i > 0; i-- {
				pre = append(pre, rapid.IntRange(1, 400).Draw(rt, "pre"))
			}
			r.Preempt = append(r.Preempt, pre)
		}
		for i := rapid.IntRange(0, 40).Draw(rt, "nsched"); i > 0; i-- {
			r.Sched = append(r.Sched, rapid.IntRange(0, 3).Draw(rt, "pick"))
		}
	}
	return r
}

// ---- reference model: association list compared with types.Identical

type pair struct {
	key types.Type
	val int
}

type model struct{ items []pair }

func (m *model) find(k types.Type) int {
	for i, p := range m.items {
		if types.Identical(p.key, k) {
			return i
		}
	}
	return -1
}

func (m *model) set(k types.Type, v int) (prev any) {
	if i := m.find(k); i >= 0 {
		prev = m.items[i].val
		m.items[i].val = v
		return
	}
	m.items = append(m.items, pair{k, v})
	return nil
}

func (m *model) del(k types.Type) bool {
	if i := m.find(k); i >= 0 {
		m.items = append(m.items[:i], m.items[i+1:]...)
		return true
	}
	return false
}

func (m *model) at(k types.Type) any {
	if i := m.find(k); i >= 0 {
		return m.items[i].val
	}
	return nil
}

func kname(i int) string { return fmt.Sprintf("%s (%v)", uni.names[i], uni.types[i]) }

// sameKeySet: got matches the model's keys one to one under types.Identical.
func (m *model) sameKeySet(got []types.Type) string {
	if len(got) != len(m.items) {
		return fmt.Sprintf("%d keys, the model has %d", len(got), len(m.items))
	}
	used := make([]bool, len(got))
	for _, p := range m.items {
		found := false
		for j, g := range got {
			if !used[j] && types.Identical(g, p.key) {
				used[j] = true
				found = true
				break
			}
		}
		if !found {
			return fmt.Sprintf("key %v of the model is missing (or a class is listed twice)", p.key)
		}
	}
	return ""
}

func exec1(rec any) *core.Outcome {
	r := rec.(*Record)
	out := &core.Outcome{}
	tp := &seams.Tapes{MapOrder: r.MapOrder, Default: r.MapDflt, PoolDflt: -1}
	seams.Install(tp)
	defer seams.Uninstall()
	if !lawChecked {
		lawChecked = true
		bad, pairs := uni.hashLaw()
		out.ProbeN("hash_law_identical_pairs_checked", pairs)
		if bad != "" {
			out.Violate(P, "hash-law", bad)
			return out
		}
	}
	var hist, obs []string
	m := &typeutil.Map{}
	ref := &model{}
	key := func(i int) types.Type { return uni.types[((i%len(uni.types))+len(uni.types))%len(uni.types)] }
	fail := func(k, f string, a ...any) { out.Violate(P, k, fmt.Sprintf(f, a...)) }
	crash := func(what string, f func()) (panicked bool) {
		defer func() {
			if rr := recover(); rr != nil {
				panicked = true
				fail("panic", "%s panicked: %v", what, rr)
			}
		}()
		f()
		return false
	}
	live := func() int { // buckets with >= 2 live keys, by the public hasher
		h := typeutil.MakeHasher()
		c := map[uint32]int{}
		n := 0
		for _, p := range ref.items {
			c[h.Hash(p.key)]++
			if c[h.Hash(p.key)] == 2 {
				n++
			}
		}
		return n
	}
	deletedFromCollidingBucket := false
	for idx, op := range r.Ops {
		hist = append(hist, fmt.Sprintf("%s %d %d %v", op.Kind, op.Key, op.Val, op.Muts))
		tag := fmt.Sprintf("op %d %s", idx, op.Kind)
		switch op.Kind {
		case "set":
			k := key(op.Key)
			var got any
			if crash(tag, func() { got = m.Set(k, op.Val) }) {
				return out
			}
			want := ref.set(k, op.Val)
			obs = append(obs, fmt.Sprint(got))
			if got != want {
				fail("set-prev", "%s(%s, %d) returned previous value %v, the model says %v", tag, kname(op.Key), op.Val, got, want)
				return out
			}
			if deletedFromCollidingBucket {
				out.Probe("set_after_delete_in_colliding_bucket")
			}
		case "delete":
			k := key(op.Key)
			var got bool
			if crash(tag, func() { got = m.Delete(k) }) {
				return out
			}
			h := typeutil.MakeHasher()
			if got {
				for _, p := range ref.items {
					if !types.Identical(p.key, k) && h.Hash(p.key) == h.Hash(k) {
						deletedFromCollidingBucket = true
					}
				}
			}
			want := ref.del(k)
			obs = append(obs, fmt.Sprint(got))
			if got != want {
				fail("delete-result", "%s(%s) returned %v, the model says %v", tag, kname(op.Key), got, want)
				return out
			}
		case "at":
			k := key(op.Key)
			var got any
			if crash(tag, func() { got = m.At(k) }) {
				return out
			}
			obs = append(obs, fmt.Sprint(got))
			if want := ref.at(k); got != want {
				fail("at", "%s(%s) returned %v, the model says %v", tag, kname(op.Key), got, want)
				return out
			}
		case "len":
			if got := m.Len(); got != len(ref.items) {
				fail("len", "%s returned %d, the model has %d entries", tag, got, len(ref.items))
				return out
			}
		case "keys":
			var got []types.Type
			if crash(tag, func() { got = m.Keys() }) {
				return out
			}
			if d := ref.sameKeySet(got); d != "" {
				fail("keys", "%s: %s", tag, d)
				return out
			}
		case "string":
			var s, ks string
			if crash(tag, func() { s, ks = m.String(), m.KeysString() }) {
				return out
			}
			for _, p := range ref.items {
				if !strings.Contains(ks, p.key.String()) || !strings.Contains(s, fmt.Sprintf("%q", p.val)) {
					// %q of an int prints a rune literal; compare through the same formatting
					if !strings.Contains(ks, p.key.String()) {
						fail("string", "%s: KeysString %q lacks key %v", tag, ks, p.key)
						return out
					}
				}
			}
			if n := strings.Count(s, ": "); n != len(ref.items) {
				fail("string", "%s: String() shows %d entries, the model has %d: %s", tag, n, len(ref.items), s)
				return out
			}
			if len(ref.items) == 0 && (s != "{}" || ks != "{}") {
				fail("string", "%s: empty map prints %q / %q", tag, s, ks)
				return out
			}
		case "iterate":
			seen := make([]int, len(ref.items))
			bad := ""
			if crash(tag, func() {
				m.Iterate(func(k types.Type, v any) {
					i := ref.find(k)
					switch {
					case i < 0:
						bad = fmt.Sprintf("visited %v, which the model does not hold", k)
					case v != ref.items[i].val:
						bad = fmt.Sprintf("visited %v with value %v, the model has %v", k, v, ref.items[i].val)
					default:
						seen[i]++
					}
				})
			}) {
				return out
			}
			for i, n := range seen {
				if n != 1 && bad == "" {
					bad = fmt.Sprintf("key %v visited %d times", ref.items[i].key, n)
				}
			}
			if bad != "" {
				fail("iterate", "%s: %s", tag, bad)
				return out
			}
		case "iterate_mutate":
			if v := iterateMutate(m, ref, op, key, out); v != "" {
				fail("iterate-under-mutation", "%s: %s", tag, v)
				return out
			}
		case "nil_reads":
			var nm *typeutil.Map
			if crash(tag, func() {
				if nm.Len() != 0 || nm.At(key(op.Key)) != nil || len(nm.Keys()) != 0 || nm.String() != "{}" || nm.Delete(key(op.Key)) {
					fail("nil-map", "%s: reads of a nil map do not behave like an empty map", tag)
				}
				nm.Iterate(func(types.Type, any) { fail("nil-map", "%s: Iterate on nil map called back", tag) })
			}) || len(out.Violations) > 0 {
				return out
			}
		}
		if got := m.Len(); got != len(ref.items) {
			fail("len", "after %s Len() is %d, the model has %d entries", tag, got, len(ref.items))
			return out
		}
		if n := live(); n > 0 {
			out.Probe("bucket_with_ge2_live_keys")
		}
	}
	out.Ops = len(r.Ops)
	out.Steps = len(r.Ops)
	out.HistHash = core.Hash(hist...)
	out.ObsHash = core.Hash(obs...)
	// ---- concurrent read-only phase
	if len(r.Readers) > 0 && len(out.Violations) == 0 {
		concurrentReaders(m, ref, r, out)
	}
	out.ProbeN("map_order_nonidentity", tp.NonIdent)
	if tp.NonIdent > 0 {
		out.Fault("map_order")
	}
	var shape []string
	for _, op := range r.Ops {
		shape = append(shape, op.Kind, fmt.Sprint(uni.class[((op.Key%len(uni.types))+len(uni.types))%len(uni.types)]))
	}
	out.Shape = core.Hash(append(shape, out.Sched)...)
	out.Nontrivial = len(r.Ops) >= 8 && len(ref.items) >= 2
	out.Sample = map[string]any{"ops": len(r.Ops), "final_entries": len(ref.items), "readers": len(r.Readers), "first_ops": shortOps(r.Ops)}
	return out
}

func shortOps(ops []Op) []string {
	var s []string
	for i, o := range ops {
		if i >= 12 {
			break
		}
		s = append(s, fmt.Sprintf("%s(%s)", o.Kind, uni.names[((o.Key%len(uni.types))+len(uni.types))%len(uni.types)]))
	}
	return s
}

// iterateMutate runs Iterate with a mutator acting at callback points and checks the
// documented guarantees (those of Go maps).
func iterateMutate(m *typeutil.Map, ref *model, op Op, key func(int) types.Type, out *core.Outcome) (bad string) {
	type st struct {
		key        types.Type
		vals       map[int]bool // values held at some point of the iteration
		throughout bool         // present from start to end, never deleted
		deletedAt  int          // visit number at which it was deleted (-1: never)
		reinserted bool
		visits     int
		visitedAt  int
	}
	var states []*st
	find := func(k types.Type) *st {
		for _, s := range states {
			if types.Identical(s.key, k) {
				return s
			}
		}
		return nil
	}
	for _, p := range ref.items {
		states = append(states, &st{key: p.key, vals: map[int]bool{p.val: true}, throughout: true, deletedAt: -1, visitedAt: -1})
	}
	visit := 0
	defer func() {
		if rr := recover(); rr != nil {
			bad = fmt.Sprintf("panicked: %v", rr)
		}
	}()
	m.Iterate(func(k types.Type, v any) {
		s := find(k)
		if s == nil {
			if bad == "" {
				bad = fmt.Sprintf("visited %v, which was never in the map", k)
			}
			return
		}
		s.visits++
		if s.visitedAt < 0 {
			s.visitedAt = visit
		}
		if iv, ok := v.(int); !ok || !s.vals[iv] {
			if bad == "" {
				bad = fmt.Sprintf("visited %v with value %v, which the key never held during the iteration", k, v)
			}
		}
		if s.deletedAt >= 0 && !s.reinserted && bad == "" {
			bad = fmt.Sprintf("visited %v although it had been deleted (at visit %d) before being reached", k, s.deletedAt)
		}
		for _, mu := range op.Muts {
			if mu.At != visit {
				continue
			}
			mk := key(mu.Key)
			ms := find(mk)
			switch mu.Kind {
			case "set":
				m.Set(mk, mu.Val)
				ref.set(mk, mu.Val)
				if ms == nil {
					states = append(states, &st{key: mk, vals: map[int]bool{mu.Val: true}, deletedAt: -1, visitedAt: -1, reinserted: true})
				} else {
					ms.vals[mu.Val] = true
					if ms.deletedAt >= 0 {
						ms.reinserted = true
					}
				}
				out.Probe("set_inside_iterate")
			case "delete":
				gd := m.Delete(mk)
				wd := ref.del(mk)
				if gd != wd && bad == "" {
					bad = fmt.Sprintf("Delete(%v) inside the callback returned %v, the model says %v", mk, gd, wd)
				}
				if ms != nil && wd {
					ms.throughout = false
					if ms.visits == 0 {
						ms.deletedAt = visit
						out.Probe("deleted_before_reached")
					}
				}
			}
		}
		visit++
	})
	if bad != "" {
		return bad
	}
	for _, s := range states {
		if s.throughout && s.visits != 1 {
			return fmt.Sprintf("key %v was in the map throughout the iteration and was visited %d times", s.key, s.visits)
		}
		if s.visits > 1 && !s.reinserted {
			return fmt.Sprintf("key %v visited %d times", s.key, s.visits)
		}
	}
	return ""
}

type reader struct {
	t       *baton.Task
	ops     []Op
	preempt [4]int
	npre    int
	bad     string
}

type concState struct {
	s  *baton.Sched
	rs [4]*reader
	n  int
}

//go:norace
func (c *concState) yieldHook(id int) {
	t := c.s.Running()
	if t == nil || t.ID >= c.n {
		return
	}
	r := c.rs[t.ID]
	k := t.IncFine()
	for i := 0; i < r.npre; i++ {
		if r.preempt[i] == k {
			t.Yield()
			return
		}
	}
}

// concurrentReaders: "read-only map operations may safely be called concurrently".
func concurrentReaders(m *typeutil.Map, ref *model, r *Record, out *core.Outcome) {
	c := &concState{s: baton.New()}
	h := typeutil.MakeHasher()
	nr := len(r.Readers)
	if nr > 4 {
		nr = 4
	}
	c.n = nr
	for i := 0; i < nr; i++ {
		rd := &reader{ops: r.Readers[i]}
		if i < len(r.Preempt) {
			for _, p := range r.Preempt[i] {
				if rd.npre < 4 {
					rd.preempt[rd.npre] = p
					rd.npre++
				}
			}
		}
		c.rs[i] = rd
		rd.t = c.s.Go(func(t *baton.Task) {
			for _, op := range rd.ops {
				t.Yield()
				k := uni.types[((op.Key%len(uni.types))+len(uni.types))%len(uni.types)]
				switch op.Kind {
				case "at":
					if got, want := m.At(k), ref.at(k); got != want {
						rd.bad = fmt.Sprintf("At(%v) returned %v, the model says %v", k, got, want)
					}
				case "len":
					if m.Len() != len(ref.items) {
						rd.bad = "Len differs from the model"
					}
				case "keys":
					if d := ref.sameKeySet(m.Keys()); d != "" {
						rd.bad = "Keys: " + d
					}
				case "iterate":
					n := 0
					m.Iterate(func(kk types.Type, v any) {
						n++
						if v != ref.at(kk) {
							rd.bad = fmt.Sprintf("Iterate visited %v with %v, the model says %v", kk, v, ref.at(kk))
						}
					})
					if n != len(ref.items) {
						rd.bad = fmt.Sprintf("Iterate visited %d entries, the model has %d", n, len(ref.items))
					}
				case "hash":
					if h.Hash(k) != h.Hash(uni.types[uni.class[((op.Key%len(uni.types))+len(uni.types))%len(uni.types)]]) {
						rd.bad = "hash of identical types differs"
					}
				case "string":
					_ = m.String()
				}
			}
		})
	}
	sched := r.Sched
	c.s.Pick = func(step int, runnable []int, last int) int {
		if step < len(sched) {
			return runnable[sched[step]%len(runnable)]
		}
		for _, x := range runnable {
			if x > last {
				return x
			}
		}
		return runnable[0]
	}
	verifhook.YieldHook = c.yieldHook
	c.s.Run()
	verifhook.YieldHook = nil
	trace := make([]string, len(c.s.Trace))
	for i, x := range c.s.Trace {
		trace[i] = fmt.Sprint(x)
	}
	out.Sched = core.Hash(trace...)
	out.Steps += c.s.Steps
	out.Probe("concurrent_reader_phase")
	for i := 0; i < nr; i++ {
		if c.rs[i].t.Panic != nil {
			out.Violate(P, "panic", fmt.Sprintf("reader %d panicked: %v", i, c.rs[i].t.Panic))
			return
		}
		if c.rs[i].bad != "" {
			out.Violate(P, "concurrent-read", fmt.Sprintf("reader %d: %s", i, c.rs[i].bad))
			return
		}
	}
}

func simplify(rec any) []any {
	r := rec.(*Record)
	var out []any
	clone := func() *Record {
		c := *r
		c.Ops = append([]Op(nil), r.Ops...)
		return &c
	}
	if len(r.Readers) > 0 {
		c := clone()
		c.Readers, c.Sched, c.Preempt = nil, nil, nil
		out = append(out, c)
	}
	if len(r.MapOrder) > 0 {
		c := clone()
		c.MapOrder = nil
		out = append(out, c)
	}
	if r.MapDflt != 0 {
		c := clone()
		c.MapDflt = 0
		out = append(out, c)
	}
	n := len(r.Ops)
	if n > 3 {
		c := clone()
		c.Ops = c.Ops[:n/2]
		out = append(out, c)
		c = clone()
		c.Ops = c.Ops[n/2:]
		out = append(out, c)
	}
	for i := range r.Ops {
		c := clone()
		c.Ops = append(c.Ops[:i], c.Ops[i+1:]...)
		out = append(out, c)
	}
	for i, op := range r.Ops {
		if len(op.Muts) > 1 {
			for j := range op.Muts {
				c := clone()
				o := op
				o.Muts = append(append([]Mut(nil), op.Muts[:j]...), op.Muts[j+1:]...)
				c.Ops[i] = o
				out = append(out, c)
			}
		}
	}
	return out
}

func TestSim(t *testing.T) {
	e := &core.Engine{Property: P, Gen: gen, NewRecord: func() any { return &Record{} }, Exec: exec1, Simplify: simplify, Deterministic: true}
	e.Extra = func() map[string]any {
		groups := 0
		for _, g := range uni.collisions {
			if len(g) >= 2 {
				groups++
			}
		}
		return map[string]any{"universe_types": len(uni.types), "identical_pairs_in_universe": uni.identPairs, "collision_groups": groups, "race_build": verifhook.RaceEnabled}
	}
	core.Main(t, e)
}
