// Package imp gives every simulated task its own importer over export data located once
// per check with the real `go list -export`, plus in-memory synthetic packages that are
// type-checked per task (no types.Package is shared between tasks).
package imp

import (
	"bytes"
	"fmt"
	"go/ast"
	"go/importer"
	"go/parser"
	"go/token"
	"go/types"
	"io"
	"os"
	"os/exec"
	"sort"
	"strings"
)

// Exports maps an import path to its export data file.
type Exports map[string]string

// Locate runs `go list -deps -export` (the real go command, by absolute path) in dir.
func Locate(goBin, dir string, pkgs ...string) (Exports, error) {
	args := append([]string{"list", "-deps", "-export", "-f", "{{.ImportPath}}\t{{.Export}}"}, pkgs...)
	cmd := exec.Command(goBin, args...)
	cmd.Dir = dir
	var out, errb bytes.Buffer
	cmd.Stdout, cmd.Stderr = &out, &errb
	if err := cmd.Run(); err != nil {
		return nil, fmt.Errorf("go list -export: %v: %s", err, errb.String())
	}
	e := Exports{}
	for _, l := range strings.Split(strings.TrimSpace(out.String()), "\n") {
		p := strings.SplitN(l, "\t", 2)
		if len(p) == 2 && p[1] != "" {
			e[p[0]] = p[1]
		}
	}
	return e, nil
}

func (e Exports) Paths() []string {
	var ps []string
	for p := range e {
		ps = append(ps, p)
	}
	sort.Strings(ps)
	return ps
}

// Synthetic is a package given as source text.
type Synthetic struct {
	Path  string
	Files map[string]string // file name -> text
	// Post is applied to the checked package (e.g. gogen.InitXGoPackage is done by gogen
	// itself on import; nothing needed normally).
}

// Importer is a per-task importer. Fail lists paths for which Import reports an error.
type Importer struct {
	fset  *token.FileSet
	gc    types.Importer
	syn   map[string]*Synthetic
	done  map[string]*types.Package
	Fail  map[string]bool
	Calls []string // paths asked, in order (task-local)
	Hook  func(path string)
}

// SharedGC is one gc importer (and file set) shared by several builds of a process, the
// way a long-running client shares its importer between packages.
type SharedGC struct {
	Fset *token.FileSet
	GC   types.Importer
}

func (e Exports) NewSharedGC() *SharedGC {
	fset := token.NewFileSet()
	lookup := func(path string) (io.ReadCloser, error) {
		f, ok := e[path]
		if !ok {
			return nil, fmt.Errorf("no export data for %q", path)
		}
		return os.Open(f)
	}
	return &SharedGC{Fset: fset, GC: importer.ForCompiler(fset, "gc", lookup)}
}

// NewImporterShared is NewImporter over a shared gc importer: standard packages are the
// same objects in every build that uses it; synthetic packages stay per build.
func (e Exports) NewImporterShared(sh *SharedGC, syn []*Synthetic) *Importer {
	im := &Importer{fset: sh.Fset, gc: sh.GC, syn: map[string]*Synthetic{}, done: map[string]*types.Package{}, Fail: map[string]bool{}}
	for _, s := range syn {
		im.syn[s.Path] = s
	}
	return im
}

func (e Exports) NewImporter(fset *token.FileSet, syn []*Synthetic) *Importer {
	lookup := func(path string) (io.ReadCloser, error) {
		f, ok := e[path]
		if !ok {
			return nil, fmt.Errorf("no export data for %q", path)
		}
		return os.Open(f)
	}
	im := &Importer{fset: fset, gc: importer.ForCompiler(fset, "gc", lookup), syn: map[string]*Synthetic{}, done: map[string]*types.Package{}, Fail: map[string]bool{}}
	for _, s := range syn {
		im.syn[s.Path] = s
	}
	return im
}

// Fset is the file set the importer's packages were read into.
func (im *Importer) Fset() *token.FileSet { return im.fset }

func (im *Importer) Import(path string) (*types.Package, error) {
	im.Calls = append(im.Calls, path)
	if im.Hook != nil {
		im.Hook(path)
	}
	if im.Fail[path] {
		return nil, fmt.Errorf("import %q: induced failure", path)
	}
	if path == "unsafe" {
		return types.Unsafe, nil
	}
	if p, ok := im.done[path]; ok {
		return p, nil
	}
	if s, ok := im.syn[path]; ok {
		var files []*ast.File
		var names []string
		for n := range s.Files {
			names = append(names, n)
		}
		sort.Strings(names)
		for _, n := range names {
			f, err := parser.ParseFile(im.fset, path+"/"+n, s.Files[n], parser.SkipObjectResolution)
			if err != nil {
				return nil, err
			}
			files = append(files, f)
		}
		conf := types.Config{Importer: im}
		p, err := conf.Check(path, im.fset, files, nil)
		if err != nil {
			return nil, err
		}
		im.done[path] = p
		return p, nil
	}
	p, err := im.gc.Import(path)
	if err == nil {
		im.done[path] = p
	}
	return p, err
}
