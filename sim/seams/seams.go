// Package seams installs tape-driven implementations of the hooks that simrewrite puts
// into the verification build of gogen (package verifhook).
package seams

import (
	"github.com/goplus/gogen/verifhook"
)

// Perm decodes a tape value into a permutation of n elements: 0 identity, 1 reverse,
// otherwise the Lehmer code of (v-2) modulo n!.
func Perm(v, n int) []int {
	p := make([]int, n)
	for i := range p {
		p[i] = i
	}
	switch {
	case v <= 0 || n < 2:
		return p
	case v == 1:
		for i, j := 0, n-1; i < j; i, j = i+1, j-1 {
			p[i], p[j] = p[j], p[i]
		}
		return p
	}
	code := v - 1
	avail := append([]int(nil), p...)
	out := make([]int, 0, n)
	for k := n; k >= 1; k-- {
		idx := code % k
		code /= k
		out = append(out, avail[idx])
		avail = append(avail[:idx], avail[idx+1:]...)
	}
	return out
}

// Tapes is the environment of one execution. Fixed arrays: it is read from several tasks.
type Tapes struct {
	MapOrder   []int
	Pool       []int
	Default    int // map-order code used when the tape is exhausted
	PoolDflt   int // pool decision when the tape is exhausted: -1 fresh, 0 most recent
	moPos      int
	poolPos    int
	NonIdent   int // permutations applied that were not the identity
	Calls      int // map-order decisions taken on >= 2 keys
	PoolHits   int // Get served from a previously Put object
	PoolMisses int // Get served fresh
	Ties       int
	Sites      map[string]int // per site: decisions with >= 2 keys (scheduler goroutine / single task only)
	TrackSites bool
}

//go:norace
func (t *Tapes) mapOrder(site string, n int) []int {
	v := t.Default
	if t.moPos < len(t.MapOrder) {
		v = t.MapOrder[t.moPos]
		t.moPos++
	}
	t.Calls++
	if t.TrackSites {
		t.Sites[site]++
	}
	p := Perm(v, n)
	for i, x := range p {
		if i != x {
			t.NonIdent++
			break
		}
	}
	return p
}

//go:norace
func (t *Tapes) pool(site string, navail int) int {
	v := t.PoolDflt
	if t.poolPos < len(t.Pool) {
		v = t.Pool[t.poolPos]
		t.poolPos++
	}
	if navail == 0 || v < 0 {
		t.PoolMisses++
		return -1
	}
	t.PoolHits++
	// 0 = most recently put
	return navail - 1 - (v % navail)
}

//go:norace
func (t *Tapes) tie(site string) { t.Ties++ }

// Install makes t the active environment. Native=true removes every hook (runtime order).
func Install(t *Tapes) {
	if t.Sites == nil {
		t.Sites = map[string]int{}
	}
	verifhook.MapOrderHook = t.mapOrder
	verifhook.PoolHook = t.pool
	verifhook.TieHook = t.tie
}

func Uninstall() {
	verifhook.MapOrderHook = nil
	verifhook.PoolHook = nil
	verifhook.TieHook = nil
	verifhook.YieldHook = nil
}
