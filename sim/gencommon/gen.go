// Package gencommon holds the rapid-driven generators shared by the builder engines:
// programs (synthetic or corpus) and front-end schedules with fault plans.
package gencommon

import (
	"pgregory.net/rapid"

	"gogenverif/sim/prog"
	"gogenverif/sim/run"
)

// RC adapts rapid to prog.Chooser.
type RC struct{ T *rapid.T }

func (c RC) Int(n int) int {
	if n <= 1 {
		return 0
	}
	return rapid.IntRange(0, n-1).Draw(c.T, "c")
}

// ProgramSpec says what kinds of programs an engine wants.
type ProgramSpec struct {
	CorpusShare int // out of 10
	Lib         int // out of 10: non-main package
	MaxXGo      int
	Budget      int
	MaxDepth    int
	MaxDecls    int
}

// Program draws a program. corpusPaths may be empty (synthetic only).
func Program(rt *rapid.T, spec ProgramSpec, corpusPaths []string) *prog.Program {
	if len(corpusPaths) > 0 && rapid.IntRange(0, 9).Draw(rt, "corpus") < spec.CorpusShare {
		p := rapid.SampledFrom(corpusPaths).Draw(rt, "corpus_pkg")
		return &prog.Program{Corpus: p, PkgPath: p}
	}
	o := prog.GenOptions{MaxFiles: 4, MaxDecls: spec.MaxDecls, MaxDepth: spec.MaxDepth, Budget: spec.Budget}
	o.Lib = rapid.IntRange(0, 9).Draw(rt, "lib") < spec.Lib
	if spec.MaxXGo > 0 {
		o.WantXGo = rapid.IntRange(0, spec.MaxXGo).Draw(rt, "nxgo")
	}
	return prog.Generate(RC{rt}, o)
}

// FrontSpec says which schedule dimensions and fault kinds are in play.
type FrontSpec struct {
	Faults        []string // allowed fault kinds
	MaxFaults     int
	Constructs    []string // XGo-only constructs injected between statements (not faults)
	FileAssign    bool
	HandlerFlip   bool
	CompleteEarly bool // grouped type declarations may be closed before lazy members are loaded (output then lacks those specs: only for byte comparison)
	Writes        bool // files written mid-build and in scrambled order at the end
	FailedPrint   bool // a print of another package that panics half-way precedes the writes
	LateRefs      bool // functions referring to packages are added after a first round of writes
}

// Front draws a front-end schedule: 1/4 plain (source order, nothing lazy), the rest with
// eager subsets in scrambled order, lazy types, scrambled body order.
func Front(rt *rapid.T, spec FrontSpec) *run.Front {
	f := &run.Front{}
	f.XGoBuiltin = rapid.IntRange(0, 2).Draw(rt, "xgo_builtin") == 0
	if rapid.IntRange(0, 3).Draw(rt, "plain") == 0 {
		return f
	}
	ne := rapid.IntRange(0, 12).Draw(rt, "neager")
	for i := 0; i < ne; i++ {
		f.Eager = append(f.Eager, rapid.IntRange(0, 199).Draw(rt, "eager"))
	}
	nl := rapid.IntRange(0, 4).Draw(rt, "nlazy")
	for i := 0; i < nl; i++ {
		f.Lazy = append(f.Lazy, rapid.IntRange(0, 49).Draw(rt, "lazy"))
	}
	nb := rapid.IntRange(0, 8).Draw(rt, "nbody")
	for i := 0; i < nb; i++ {
		f.BodyOrder = append(f.BodyOrder, rapid.IntRange(0, 199).Draw(rt, "body"))
	}
	f.BodiesEarly = rapid.Bool().Draw(rt, "bodies_early")
	f.ImportAtStart = rapid.IntRange(0, 3).Draw(rt, "import_at_start") == 0
	if spec.FileAssign && rapid.IntRange(0, 2).Draw(rt, "reassign") == 0 {
		f.NFiles = rapid.IntRange(1, 4).Draw(rt, "nfiles")
		n := rapid.IntRange(1, 8).Draw(rt, "nassign")
		for i := 0; i < n; i++ {
			f.FileAssign = append(f.FileAssign, rapid.IntRange(0, 3).Draw(rt, "file"))
		}
	}
	if spec.CompleteEarly && len(f.Lazy) > 0 {
		f.CompleteEarly = rapid.Bool().Draw(rt, "complete_early")
		// make it likely that both members of a group are lazy
		f.Lazy = append(f.Lazy, 0, 1, 2, 3)
		f.Eager = append([]int{0, 1, 2, 3}, f.Eager...)
	}
	if spec.Writes {
		// (files are not written in the middle of a build: gogen fixes the name of an import
		// when the file is first written, so declarations made afterwards cannot be taken
		// into account - a use the property does not cover)
		f.Rewrites = rapid.IntRange(0, 2).Draw(rt, "rewrites")
		if rapid.IntRange(0, 2).Draw(rt, "late_force") == 0 {
			for i := rapid.IntRange(1, 3).Draw(rt, "nlate"); i > 0; i-- {
				f.LateForce = append(f.LateForce, rapid.IntRange(0, 3).Draw(rt, "lfile"), rapid.IntRange(0, 6).Draw(rt, "lpath"))
			}
		}
		if spec.LateRefs && rapid.IntRange(0, 2).Draw(rt, "late_ref") == 0 {
			for i := rapid.IntRange(1, 2).Draw(rt, "nlateref"); i > 0; i-- {
				f.LateRef = append(f.LateRef, rapid.IntRange(0, 3).Draw(rt, "rfile"), rapid.IntRange(0, 11).Draw(rt, "rpath"))
			}
		}
		if spec.FailedPrint {
			f.FailedPrint = rapid.IntRange(0, 3).Draw(rt, "failed_print") == 0
		}
		if rapid.Bool().Draw(rt, "reorder_writes") {
			f.WriteOrder = []int{rapid.IntRange(0, 3).Draw(rt, "wrot"), rapid.IntRange(0, 1).Draw(rt, "wrev")}
		}
	}
	if spec.HandlerFlip {
		f.HandlerReturns = rapid.Bool().Draw(rt, "handler_returns")
	}
	f.NoSkipConst = rapid.IntRange(0, 4).Draw(rt, "noskip") == 0
	if len(spec.Constructs) > 0 && rapid.IntRange(0, 2).Draw(rt, "constructs") != 0 {
		n := rapid.IntRange(1, 4).Draw(rt, "nconstructs")
		for i := 0; i < n; i++ {
			f.Faults = append(f.Faults, run.Fault{
				Unit: rapid.IntRange(0, 30).Draw(rt, "cunit"),
				Stmt: rapid.IntRange(0, 5).Draw(rt, "cstmt"),
				Kind: rapid.SampledFrom(spec.Constructs).Draw(rt, "ckind"),
				Arg:  rapid.IntRange(0, 11).Draw(rt, "carg"),
			})
		}
	}
	if len(spec.Faults) > 0 && rapid.IntRange(0, 3).Draw(rt, "faulty") != 0 {
		n := rapid.IntRange(1, spec.MaxFaults).Draw(rt, "nfaults")
		for i := 0; i < n; i++ {
			f.Faults = append(f.Faults, run.Fault{
				Unit: rapid.IntRange(0, 30).Draw(rt, "funit"),
				Stmt: rapid.IntRange(0, 5).Draw(rt, "fstmt"),
				Kind: rapid.SampledFrom(spec.Faults).Draw(rt, "fkind"),
				Arg:  rapid.IntRange(0, 11).Draw(rt, "farg"),
			})
		}
	}
	return f
}

// SimplifyFront lists one-step simplifications of a schedule.
func SimplifyFront(f *run.Front) []*run.Front {
	var out []*run.Front
	add := func(g func(c *run.Front)) {
		c := *f
		c.Eager = append([]int(nil), f.Eager...)
		c.Lazy = append([]int(nil), f.Lazy...)
		c.BodyOrder = append([]int(nil), f.BodyOrder...)
		c.FileAssign = append([]int(nil), f.FileAssign...)
		c.Faults = append([]run.Fault(nil), f.Faults...)
		g(&c)
		out = append(out, &c)
	}
	if len(f.Eager) > 0 {
		add(func(c *run.Front) { c.Eager = nil })
		for i := range f.Eager {
			i := i
			add(func(c *run.Front) { c.Eager = append(c.Eager[:i], c.Eager[i+1:]...) })
		}
	}
	if len(f.Lazy) > 0 {
		add(func(c *run.Front) { c.Lazy = nil })
	}
	if len(f.BodyOrder) > 0 {
		add(func(c *run.Front) { c.BodyOrder = nil })
	}
	if len(f.FileAssign) > 0 {
		add(func(c *run.Front) { c.FileAssign, c.NFiles = nil, 0 })
	}
	for i := range f.Faults {
		i := i
		add(func(c *run.Front) { c.Faults = append(c.Faults[:i], c.Faults[i+1:]...) })
	}
	if f.BodiesEarly {
		add(func(c *run.Front) { c.BodiesEarly = false })
	}
	if f.ImportAtStart {
		add(func(c *run.Front) { c.ImportAtStart = false })
	}
	if f.HandlerReturns {
		add(func(c *run.Front) { c.HandlerReturns = false })
	}
	if f.NoSkipConst {
		add(func(c *run.Front) { c.NoSkipConst = false })
	}
	if f.XGoBuiltin {
		add(func(c *run.Front) { c.XGoBuiltin = false })
	}
	if f.CompleteEarly {
		add(func(c *run.Front) { c.CompleteEarly = false })
	}
	if len(f.EarlyWrites) > 0 {
		add(func(c *run.Front) { c.EarlyWrites = nil })
	}
	if f.Rewrites > 0 {
		add(func(c *run.Front) { c.Rewrites = 0 })
	}
	if f.FailedPrint {
		add(func(c *run.Front) { c.FailedPrint = false })
	}
	if len(f.LateRef) > 0 {
		add(func(c *run.Front) { c.LateRef = nil })
		if len(f.LateRef) > 2 {
			add(func(c *run.Front) { c.LateRef = append([]int(nil), c.LateRef[:2]...) })
		}
	}
	if len(f.LateForce) > 0 {
		add(func(c *run.Front) { c.LateForce = nil })
		if len(f.LateForce) > 2 {
			add(func(c *run.Front) { c.LateForce = append([]int(nil), c.LateForce[:2]...) })
		}
	}
	if len(f.WriteOrder) > 0 {
		add(func(c *run.Front) { c.WriteOrder = nil })
	}
	return out
}

// SimplifyProgram lists one-step simplifications of a synthetic program: drop a file,
// drop a top-level declaration (text between blank-line separated chunks), drop an XGo package.
func SimplifyProgram(p *prog.Program) []*prog.Program {
	if p.Corpus != "" {
		return nil
	}
	var out []*prog.Program
	clone := func() *prog.Program {
		c := *p
		c.Files = append([]prog.SrcFile(nil), p.Files...)
		c.XGo = append([]prog.XGoPkg(nil), p.XGo...)
		return &c
	}
	if len(p.Files) > 1 {
		for i := range p.Files {
			c := clone()
			c.Files = append(c.Files[:i], c.Files[i+1:]...)
			out = append(out, c)
		}
	}
	for i, f := range p.Files {
		chunks := prog.SplitDecls(f.Text)
		if len(chunks) <= 2 {
			continue
		}
		for k := 1; k < len(chunks); k++ { // chunk 0 is the package clause
			c := clone()
			nc := append(append([]string{}, chunks[:k]...), chunks[k+1:]...)
			c.Files[i] = prog.SrcFile{Name: f.Name, Text: prog.FixImports(prog.JoinDecls(nc))}
			out = append(out, c)
		}
	}
	return out
}

var Forceable = []string{"errors", "unicode/utf8", "sort", "os", "bytes", "math"}

// ForceImports draws 0-5 distinct paths to force-import (blank imports of one file).
func ForceImports(rt *rapid.T) []string {
	if rapid.IntRange(0, 2).Draw(rt, "force") != 0 {
		return nil
	}
	n := rapid.IntRange(1, 5).Draw(rt, "nforce")
	start := rapid.IntRange(0, len(Forceable)-1).Draw(rt, "force_start")
	var out []string
	for i := 0; i < n && i < len(Forceable); i++ {
		out = append(out, Forceable[(start+i)%len(Forceable)])
	}
	return out
}
