// Package core is the glue shared by all engines: environment, seeded generation through
// rapid, execution of explicit Records, replay, known findings, race-log watching and the
// per-worker evidence part file.
package core

import (
	"crypto/sha256"
	"encoding/hex"
	"encoding/json"
	"flag"
	"fmt"
	"os"
	"path/filepath"
	"runtime"
	"sort"
	"strconv"
	"strings"
	"sync/atomic"
	"syscall"
	"testing"
	"time"

	"pgregory.net/rapid"
)

// Violation is one observed breach of a property.
type Violation struct {
	Property string `json:"property"`
	Key      string `json:"key"`    // violation class; matched against known findings
	Detail   string `json:"detail"` // human readable
	NoShrink bool   `json:"-"`      // cannot be re-observed in this process (race reports)
	Record   []byte `json:"-"`      // the record to save as replay, if not the one being executed
}

// Outcome is what executing one Record produced.
type Outcome struct {
	Violations   []Violation
	Shape        string // program/schedule/fault shape, for distinctness
	Nontrivial   bool
	Ops          int
	Steps        int
	Faults       map[string]int // fired, per kind
	Probes       map[string]int // rare conditions reached
	Sched        string         // interleaving hash ("" if single actor)
	HistHash     string         // what the harness did
	ObsHash      string         // what the system answered ("" = not comparable)
	Inconclusive string         // cap hit etc.
	Observations map[string]int // out-of-scope things noticed
	Sample       any            // short form of the record, for evidence
}

func (o *Outcome) Fault(k string) {
	if o.Faults == nil {
		o.Faults = map[string]int{}
	}
	o.Faults[k]++
}
func (o *Outcome) Probe(k string) {
	if o.Probes == nil {
		o.Probes = map[string]int{}
	}
	o.Probes[k]++
}
func (o *Outcome) ProbeN(k string, n int) {
	if n == 0 {
		return
	}
	if o.Probes == nil {
		o.Probes = map[string]int{}
	}
	o.Probes[k] += n
}
func (o *Outcome) Observe(k string) {
	if o.Observations == nil {
		o.Observations = map[string]int{}
	}
	o.Observations[k]++
}
func (o *Outcome) Violate(prop, key, detail string) {
	o.Violations = append(o.Violations, Violation{Property: prop, Key: key, Detail: detail})
}

// Engine is implemented by each property engine.
type Engine struct {
	Property  string
	Gen       func(rt *rapid.T) any // draws a Record (pointer to a JSON-able struct)
	NewRecord func() any            // empty Record for replay decoding
	Exec      func(rec any) *Outcome
	// Deterministic: ObsHash of two executions of one Record must agree (else violation
	// with key nondeterministic-observation when HistHash agrees).
	Deterministic bool
	Extra         func() map[string]any // engine-specific evidence fields
	// Invariant is checked after every execution (process-wide state that no record may change).
	Invariant func() (key, detail string)
	// Simplify returns one-step simplifications of a Record (each a fresh Record). Used by
	// the Record-level minimiser that runs after rapid's bitstream shrinking.
	Simplify func(rec any) []any
}

// Finding is one entry of /verif/known_findings.json.
type Finding struct {
	Property string `json:"property"`
	Key      string `json:"key"`
	What     string `json:"what"`
	Status   string `json:"status"` // "known" | "fixed"
	Commit   string `json:"commit,omitempty"`
}

// Part is the evidence fragment one worker process writes.
type Part struct {
	Property     string            `json:"property"`
	Worker       int               `json:"worker"`
	Seed         int64             `json:"seed"`
	Config       string            `json:"config"`
	Evaluations  int               `json:"evaluations"`
	ShrinkExecs  int               `json:"shrink_executions"`
	Shapes       map[string]bool   `json:"shapes"` // distinct non-trivial
	Scheds       map[string]bool   `json:"scheds"`
	Ops          int               `json:"ops"`
	Steps        int               `json:"steps"`
	Faults       map[string]int    `json:"faults_fired"`
	Probes       map[string]int    `json:"probes"`
	Observations map[string]int    `json:"observations"`
	Inconclusive map[string]int    `json:"inconclusive"`
	FaultFree    int               `json:"fault_free_runs"`
	Samples      []any             `json:"samples"`
	Violations   []PartViolation   `json:"violations"`
	Known        map[string]int    `json:"known_hits"`
	KnownWhat    map[string]string `json:"known_what"`
	DetChecks    int               `json:"determinism_double_executions"`
	Digest       string            `json:"digest"` // fold of (history hash, observation hash) of every generated record, in order
	HarnessErr   string            `json:"harness_error,omitempty"`
	WallS        float64           `json:"wall_s"`
	Extra        map[string]any    `json:"extra,omitempty"`
}

type PartViolation struct {
	Violation
	Replay string `json:"replay"`
}

type state struct {
	eng      *Engine
	part     *Part
	known    map[string]Finding
	outDir   string
	raceLog  string
	raceSize int64
	stop     bool
	target   string // violation key being minimised
	lastFail []byte // Record JSON of the last failing execution
	lastViol Violation
	inShrink bool
	execN    int

	noExtra   bool
	execStart atomic.Int64
	curRec    atomic.Value
	start     time.Time
}

// watchdog: a single execution that exceeds the cap is reported as inconclusive (a hang
// is not a violation of the properties claimed here); the process saves the record and
// its goroutine stacks and ends, so that the other workers' evidence stays usable.
func cpuSeconds() float64 {
	var ru syscall.Rusage
	if syscall.Getrusage(syscall.RUSAGE_SELF, &ru) != nil {
		return 0
	}
	return float64(ru.Utime.Sec+ru.Stime.Sec) + float64(ru.Utime.Usec+ru.Stime.Usec)/1e6
}

// The cap is on CPU time consumed by this process since the execution started (wall time
// would fire on a merely overloaded machine), with a wall-clock backstop ten times as long.
func (s *state) watchdog(limit time.Duration) {
	var curStart int64
	var cpuAtStart float64
	for {
		time.Sleep(2 * time.Second)
		st := s.execStart.Load()
		if st == 0 {
			curStart = 0
			continue
		}
		if st != curStart {
			curStart, cpuAtStart = st, cpuSeconds()
			continue
		}
		if cpuSeconds()-cpuAtStart < limit.Seconds() && time.Since(time.Unix(0, st)) < 10*limit {
			continue
		}
		if rec := s.curRec.Load(); rec != nil {
			if b, err := json.Marshal(rec); err == nil {
				os.WriteFile(filepath.Join(s.outDir, "watchdog-record.json"), b, 0o644)
			}
		}
		buf := make([]byte, 1<<20)
		n := runtime.Stack(buf, true)
		os.WriteFile(filepath.Join(s.outDir, "watchdog-stacks.txt"), buf[:n], 0o644)
		s.part.Inconclusive["watchdog_execution_cap"]++
		fmt.Printf("WATCHDOG: one execution exceeded %v of CPU time; record saved, worker stops (inconclusive)\n", limit)
		s.noExtra = true // the engine is still running on the test goroutine: do not call into it
		s.writePart(s.start)
		os.Exit(0)
	}
}

func envInt(k string, d int64) int64 {
	if v := os.Getenv(k); v != "" {
		if n, err := strconv.ParseInt(v, 10, 64); err == nil {
			return n
		}
	}
	return d
}

var cur *state

// ExitCode is what TestMain should exit with.
func ExitCode() int {
	if cur == nil {
		return 2
	}
	if cur.part.HarnessErr != "" {
		return 2
	}
	if len(cur.part.Violations) > 0 {
		return 1
	}
	return 0
}

func Hash(parts ...string) string {
	h := sha256.New()
	for _, p := range parts {
		h.Write([]byte(p))
		h.Write([]byte{0})
	}
	return hex.EncodeToString(h.Sum(nil))[:16]
}

func (s *state) raceGrowth() (string, bool) {
	if s.raceLog == "" {
		return "", false
	}
	ms, _ := filepath.Glob(s.raceLog + ".*")
	var total int64
	var newest string
	for _, m := range ms {
		if fi, err := os.Stat(m); err == nil {
			total += fi.Size()
			newest = m
		}
	}
	if total > s.raceSize {
		old := s.raceSize
		s.raceSize = total
		b, _ := os.ReadFile(newest)
		if int64(len(b)) > old && len(ms) == 1 {
			b = b[old:]
		}
		return string(b), true
	}
	return "", false
}

// raceKey extracts a stable signature (top non-runtime frames of both accesses) from a report.
func raceKey(rep string) (key string, harnessOnly bool) {
	var frames []string
	lines := strings.Split(rep, "\n")
	harnessOnly = true
	sec := 0
	for i := 0; i < len(lines); i++ {
		l := strings.TrimSpace(lines[i])
		if strings.HasPrefix(l, "Previous ") || strings.HasPrefix(l, "Read at") || strings.HasPrefix(l, "Write at") ||
			strings.HasPrefix(l, "Atomic ") {
			sec++
			// first frame below
			for j := i + 1; j < len(lines) && strings.TrimSpace(lines[j]) != ""; j += 2 {
				fn := strings.TrimSpace(lines[j])
				if strings.HasPrefix(fn, "runtime.") || strings.HasPrefix(fn, "sync.") || strings.HasPrefix(fn, "sync/atomic.") {
					continue
				}
				if p := strings.Index(fn, "("); p > 0 {
					fn = fn[:p]
				}
				frames = append(frames, fn)
				break
			}
			// does any frame of this stack lie in gogen?
			for j := i + 1; j < len(lines) && strings.TrimSpace(lines[j]) != ""; j++ {
				if strings.Contains(lines[j], "github.com/goplus/gogen") || strings.Contains(lines[j], "/repo/") {
					harnessOnly = false
				}
			}
		}
		if strings.HasPrefix(l, "Goroutine ") {
			break
		}
	}
	if len(frames) > 2 {
		frames = frames[:2]
	}
	sort.Strings(frames)
	return "race:" + strings.Join(frames, "|"), harnessOnly && sec > 0
}

// RaceKey is the stable signature of a race report and whether both stacks lie in the harness.
func RaceKey(rep string) (key string, harnessOnly bool) { return raceKey(rep) }

// IsKnown tells an engine whether a violation class is a listed known finding (so that an
// enumeration inside one record can continue past it).
func IsKnown(prop, key string) bool {
	if cur == nil {
		return false
	}
	f, ok := cur.known[prop+"\x00"+key]
	return ok && f.Status == "known"
}

func (s *state) isKnown(v Violation) bool {
	f, ok := s.known[v.Property+"\x00"+v.Key]
	return ok && f.Status == "known"
}

// run executes rec (already decoded) and classifies; returns the first unknown violation.
func (s *state) run(rec any, counting bool) (*Outcome, *Violation) {
	s.execN++
	s.execStart.Store(time.Now().UnixNano())
	s.curRec.Store(rec)
	out := s.eng.Exec(rec)
	s.execStart.Store(0)
	if s.eng.Invariant != nil {
		if key, detail := s.eng.Invariant(); key != "" {
			out.Violations = append(out.Violations, Violation{Property: s.eng.Property, Key: key, Detail: detail})
		}
	}
	if rep, ok := s.raceGrowth(); ok {
		key, harnessOnly := raceKey(rep)
		if harnessOnly {
			s.part.HarnessErr = "race report with both stacks outside gogen:\n" + rep
		} else {
			head := rep
			if len(head) > 3000 {
				head = head[:3000]
			}
			out.Violations = append(out.Violations, Violation{Property: s.eng.Property, Key: key, Detail: head, NoShrink: true})
		}
	}
	p := s.part
	if counting {
		p.Digest = Hash(p.Digest, out.HistHash, out.ObsHash)
		p.Evaluations++
		p.Ops += out.Ops
		p.Steps += out.Steps
		nf := 0
		for k, n := range out.Faults {
			p.Faults[k] += n
			nf += n
		}
		if nf == 0 {
			p.FaultFree++
		}
		for k, n := range out.Probes {
			p.Probes[k] += n
		}
		for k, n := range out.Observations {
			p.Observations[k] += n
		}
		if out.Inconclusive != "" {
			p.Inconclusive[out.Inconclusive]++
		}
		if out.Nontrivial && out.Shape != "" {
			p.Shapes[out.Shape] = true
		}
		if out.Sched != "" {
			p.Scheds[out.Sched] = true
		}
		if out.Sample != nil && (len(p.Samples) < 3 && out.Nontrivial) {
			p.Samples = append(p.Samples, out.Sample)
		}
	} else {
		p.ShrinkExecs++
	}
	for i := range out.Violations {
		v := out.Violations[i]
		if s.isKnown(v) {
			if counting {
				k := v.Key
				p.Known[k]++
				if _, ok := p.KnownWhat[k]; !ok {
					p.KnownWhat[k] = s.known[v.Property+"\x00"+v.Key].What
					fmt.Printf("KNOWN-FINDING: property=%s %s [%s]\n", v.Property, p.KnownWhat[k], v.Key)
				}
			}
			continue
		}
		return out, &v
	}
	return out, nil
}

func (s *state) saveReplay(recJSON []byte, v Violation) string {
	dir := filepath.Join(s.outDir, "replays")
	os.MkdirAll(dir, 0o755)
	name := fmt.Sprintf("%s-%d-w%d-%s.json", s.eng.Property, s.part.Seed, s.part.Worker, Hash(v.Key, string(recJSON))[:8])
	path := filepath.Join(dir, name)
	wrapped, _ := json.MarshalIndent(map[string]any{
		"property": v.Property, "key": v.Key, "detail": v.Detail, "config": s.part.Config,
		"record": json.RawMessage(recJSON),
	}, "", " ")
	os.WriteFile(path, wrapped, 0o644)
	return path
}

// minimise is greedy delta debugging on the explicit Record: take any one-step
// simplification under which the same violation class persists, until none does.
func (s *state) minimise(recJSON []byte, v Violation) ([]byte, Violation) {
	if s.eng.Simplify == nil || v.NoShrink {
		return recJSON, v
	}
	deadline := time.Now().Add(time.Duration(envInt("VERIF_MINIMISE_S", 60)) * time.Second)
	progress := true
	for progress && time.Now().Before(deadline) {
		progress = false
		cur := s.eng.NewRecord()
		if json.Unmarshal(recJSON, cur) != nil {
			break
		}
		for _, cand := range s.eng.Simplify(cur) {
			if time.Now().After(deadline) {
				break
			}
			cj, err := json.Marshal(cand)
			if err != nil || len(cj) >= len(recJSON) && string(cj) == string(recJSON) {
				continue
			}
			dec := s.eng.NewRecord()
			if json.Unmarshal(cj, dec) != nil {
				continue
			}
			_, v2 := s.run(dec, false)
			if v2 != nil && v2.Key == v.Key {
				recJSON, v = cj, *v2
				progress = true
				break
			}
		}
	}
	return recJSON, v
}

func (s *state) recordViolation(recJSON []byte, v Violation) {
	if v.Record != nil {
		recJSON = v.Record
	}
	recJSON, v = s.minimise(recJSON, v)
	path := s.saveReplay(recJSON, v)
	s.part.Violations = append(s.part.Violations, PartViolation{v, path})
	fmt.Printf("VIOLATION property=%s replay=%s\n", v.Property, path)
	fmt.Printf("  key=%s\n  %s\n", v.Key, strings.ReplaceAll(v.Detail, "\n", "\n  "))
	s.stop = true
}

func (s *state) writePart(start time.Time) {
	s.part.WallS = time.Since(start).Seconds()
	if s.eng.Extra != nil && !s.noExtra {
		s.part.Extra = s.eng.Extra()
	}
	b, _ := json.Marshal(s.part)
	os.MkdirAll(s.outDir, 0o755)
	path := filepath.Join(s.outDir, fmt.Sprintf("part-%s-%d.json", s.part.Config, s.part.Worker))
	if err := os.WriteFile(path, b, 0o644); err != nil {
		fmt.Fprintln(os.Stderr, "cannot write part:", err)
		s.part.HarnessErr = err.Error()
	}
}

// Main drives one engine inside a test function.
//
// Environment: VERIF_SEED, VERIF_OUT (directory), VERIF_WORKER, VERIF_CONFIG (label),
// VERIF_CHECKS (records to generate, 0 = until budget), VERIF_BUDGET_S, VERIF_REPLAY (file),
// VERIF_KNOWN (known_findings.json), VERIF_RACELOG (GORACE log_path prefix).
func Main(t *testing.T, e *Engine) {
	start := time.Now()
	s := &state{eng: e, known: map[string]Finding{}}
	cur = s
	s.outDir = os.Getenv("VERIF_OUT")
	if s.outDir == "" {
		s.outDir = filepath.Join(os.TempDir(), "verif-out")
	}
	s.raceLog = os.Getenv("VERIF_RACELOG")
	s.part = &Part{Property: e.Property, Worker: int(envInt("VERIF_WORKER", 0)), Seed: envInt("VERIF_SEED", 1),
		Config: os.Getenv("VERIF_CONFIG"), Shapes: map[string]bool{}, Scheds: map[string]bool{}, Faults: map[string]int{},
		Probes: map[string]int{}, Observations: map[string]int{}, Inconclusive: map[string]int{}, Known: map[string]int{},
		KnownWhat: map[string]string{}}
	if s.part.Config == "" {
		s.part.Config = "default"
	}
	if kf := os.Getenv("VERIF_KNOWN"); kf != "" {
		if b, err := os.ReadFile(kf); err == nil {
			var fs []Finding
			if err := json.Unmarshal(b, &fs); err != nil {
				s.part.HarnessErr = "known findings unreadable: " + err.Error()
			}
			for _, f := range fs {
				s.known[f.Property+"\x00"+f.Key] = f
			}
		}
	}
	defer s.writePart(start)
	s.start = start
	go s.watchdog(time.Duration(envInt("VERIF_EXEC_CAP_S", 60)) * time.Second)

	if rf := os.Getenv("VERIF_REPLAY"); rf != "" {
		b, err := os.ReadFile(rf)
		if err != nil {
			s.part.HarnessErr = err.Error()
			return
		}
		var w struct {
			Key    string          `json:"key"`
			Record json.RawMessage `json:"record"`
		}
		if err := json.Unmarshal(b, &w); err != nil {
			s.part.HarnessErr = err.Error()
			return
		}
		rec := e.NewRecord()
		if err := json.Unmarshal(w.Record, rec); err != nil {
			s.part.HarnessErr = err.Error()
			return
		}
		out, v := s.run(rec, true)
		if v != nil {
			s.part.Violations = append(s.part.Violations, PartViolation{*v, rf})
			fmt.Printf("VIOLATION property=%s replay=%s\n  key=%s\n  %s\n", v.Property, rf, v.Key, strings.ReplaceAll(v.Detail, "\n", "\n  "))
			if w.Key != "" && w.Key != v.Key {
				fmt.Printf("  note: replay file was recorded with key=%s\n", w.Key)
			}
		} else {
			fmt.Printf("REPLAY-OK property=%s hist=%s obs=%s (no violation reproduced)\n", e.Property, out.HistHash, out.ObsHash)
		}
		return
	}

	total := int(envInt("VERIF_CHECKS", 100))
	budget := time.Duration(envInt("VERIF_BUDGET_S", 0)) * time.Second
	batch := 50
	done := 0
	seed := uint64(s.part.Seed)*1000003 + uint64(s.part.Worker)*7919 + 1
	for bi := 0; !s.stop && s.part.HarnessErr == ""; bi++ {
		if total > 0 && done >= total {
			break
		}
		if budget > 0 && time.Since(start) > budget {
			break
		}
		if total == 0 && budget == 0 {
			break
		}
		n := batch
		if total > 0 && total-done < n {
			n = total - done
		}
		flag.Set("rapid.seed", strconv.FormatUint(seed+uint64(bi)*1000, 10))
		flag.Set("rapid.checks", strconv.Itoa(n))
		flag.Set("rapid.nofailfile", "true")
		s.target = ""
		s.inShrink = false
		s.lastFail = nil
		t.Run(fmt.Sprintf("batch%d", bi), func(t *testing.T) {
			defer func() {
				// rapid calls FailNow -> Goexit; the deferred function still runs
				if s.lastFail != nil && !s.stop {
					s.recordViolation(s.lastFail, s.lastViol)
				}
			}()
			rapid.Check(t, func(rt *rapid.T) {
				if s.stop || s.part.HarnessErr != "" {
					return
				}
				if budget > 0 && !s.inShrink && time.Since(start) > budget+budget/4 {
					return
				}
				rec := e.Gen(rt)
				recJSON, err := json.Marshal(rec)
				if err != nil {
					s.part.HarnessErr = "record not serialisable: " + err.Error()
					return
				}
				// execute the decoded form, so that replay is exactly what ran
				dec := e.NewRecord()
				if err := json.Unmarshal(recJSON, dec); err != nil {
					s.part.HarnessErr = "record does not round-trip: " + err.Error()
					return
				}
				out, v := s.run(dec, !s.inShrink)
				if !s.inShrink && v == nil && e.Deterministic && s.execN%8 == 0 {
					dec2 := e.NewRecord()
					json.Unmarshal(recJSON, dec2)
					out2 := e.Exec(dec2)
					s.part.DetChecks++
					if out.HistHash != out2.HistHash {
						s.part.HarnessErr = fmt.Sprintf("HARNESS-NONDETERMINISM: history hash %s vs %s for one record", out.HistHash, out2.HistHash)
						os.WriteFile(filepath.Join(s.outDir, "nondet-record.json"), recJSON, 0o644)
						fmt.Println(s.part.HarnessErr)
						return
					}
					if out.ObsHash != out2.ObsHash {
						v = &Violation{Property: e.Property, Key: "nondeterministic-observation",
							Detail: fmt.Sprintf("two executions of one record with equal harness history %s gave observation hashes %s and %s", out.HistHash, out.ObsHash, out2.ObsHash), NoShrink: true}
					}
				}
				if v == nil {
					return
				}
				if v.NoShrink {
					s.recordViolation(recJSON, *v)
					return
				}
				if s.target == "" {
					s.target = v.Key
					s.inShrink = true
				}
				if v.Key != s.target {
					return // a different class: not what is being minimised
				}
				s.lastFail = recJSON
				s.lastViol = *v
				rt.Fatalf("violation %s: %s", v.Key, v.Detail)
			})
		})
		done += n
	}
}

// LateViolation lets an engine report a violation found after the last record (e.g. by a
// batched cross-process comparison flushed at the end).
func LateViolation(v Violation) {
	if cur == nil {
		return
	}
	if cur.isKnown(v) {
		cur.part.Known[v.Key]++
		return
	}
	cur.recordViolation(v.Record, v)
}

// SortedKeys returns the keys of a map in ascending order (the harness never ranges a map
// without sorting).
func SortedKeys[V any](m map[string]V) []string {
	ks := make([]string, 0, len(m))
	for k := range m {
		ks = append(ks, k)
	}
	sort.Strings(ks)
	return ks
}
