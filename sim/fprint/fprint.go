// Package fprint computes a structural fingerprint of the package-level state of the
// verification build of gogen (addresses of all package-level variables are registered by
// generated init functions through verifhook.RegisterGlobals).
package fprint

import (
	"fmt"
	"go/types"
	"hash/fnv"
	"reflect"
	"sort"
	"strings"
	"unsafe"

	"github.com/goplus/gogen/verifhook"
)

type Entry struct {
	Pkg, Name string
	Kind      reflect.Kind
	Hash      uint64
}

type walker struct {
	seen  map[unsafe.Pointer]bool
	nodes int
}

func opaque(t reflect.Type) bool {
	switch t.PkgPath() {
	case "go/types", "sync", "sync/atomic", "github.com/goplus/gogen/verifhook", "reflect", "regexp", "math/big", "go/constant":
		return true
	case "go/token":
		return t.Name() == "FileSet" || t.Name() == "File"
	}
	return false
}

func (w *walker) walk(v reflect.Value, depth int) uint64 {
	h := fnv.New64a()
	put := func(s string) { h.Write([]byte(s)); h.Write([]byte{0}) }
	if !v.IsValid() {
		put("invalid")
		return h.Sum64()
	}
	t := v.Type()
	put(t.String())
	if depth > 14 || w.nodes > 200000 {
		return h.Sum64()
	}
	w.nodes++
	if opaque(t) {
		// identity only: go/types objects fill internal caches lazily, legitimately
		if v.Kind() == reflect.Pointer || v.Kind() == reflect.Map || v.Kind() == reflect.Chan || v.Kind() == reflect.Func {
			put(fmt.Sprintf("%x", v.Pointer()))
		}
		return h.Sum64()
	}
	switch v.Kind() {
	case reflect.Bool:
		put(fmt.Sprint(v.Bool()))
	case reflect.Int, reflect.Int8, reflect.Int16, reflect.Int32, reflect.Int64:
		put(fmt.Sprint(v.Int()))
	case reflect.Uint, reflect.Uint8, reflect.Uint16, reflect.Uint32, reflect.Uint64, reflect.Uintptr:
		put(fmt.Sprint(v.Uint()))
	case reflect.Float32, reflect.Float64:
		put(fmt.Sprint(v.Float()))
	case reflect.Complex64, reflect.Complex128:
		put(fmt.Sprint(v.Complex()))
	case reflect.String:
		put(v.String())
	case reflect.Func, reflect.Chan, reflect.UnsafePointer:
		put(fmt.Sprintf("%x", v.Pointer()))
	case reflect.Pointer:
		if v.IsNil() {
			put("nil")
			break
		}
		p := unsafe.Pointer(v.Pointer())
		put(fmt.Sprintf("%x", uintptr(p)))
		if w.seen[p] {
			break
		}
		w.seen[p] = true
		put(fmt.Sprint(w.walk(reflect.NewAt(t.Elem(), p).Elem(), depth+1)))
	case reflect.Interface:
		if v.IsNil() {
			put("nil")
			break
		}
		e := v.Elem()
		if e.Kind() == reflect.Pointer {
			put(fmt.Sprint(w.walk(e, depth+1)))
		} else {
			put(e.Type().String())
			if e.CanInterface() {
				put(fmt.Sprintf("%v", e.Interface()))
			}
		}
	case reflect.Struct:
		for i := 0; i < v.NumField(); i++ {
			f := v.Field(i)
			if f.CanAddr() {
				f = reflect.NewAt(f.Type(), unsafe.Pointer(f.UnsafeAddr())).Elem()
			}
			put(t.Field(i).Name)
			put(fmt.Sprint(w.walk(f, depth+1)))
		}
	case reflect.Slice:
		if v.IsNil() {
			put("nil")
			break
		}
		put(fmt.Sprintf("%x/%d/%d", v.Pointer(), v.Len(), v.Cap()))
		for i := 0; i < v.Len() && i < 4096; i++ {
			put(fmt.Sprint(w.walk(v.Index(i), depth+1)))
		}
	case reflect.Array:
		for i := 0; i < v.Len() && i < 4096; i++ {
			put(fmt.Sprint(w.walk(v.Index(i), depth+1)))
		}
	case reflect.Map:
		if v.IsNil() {
			put("nil")
			break
		}
		put(fmt.Sprintf("%x/%d", v.Pointer(), v.Len()))
		// order-independent combination of the entries
		var sum uint64
		it := v.MapRange()
		for it.Next() {
			kh := w.walk(it.Key(), depth+1)
			val := it.Value()
			var vh uint64
			switch val.Kind() {
			case reflect.Pointer, reflect.Map, reflect.Slice, reflect.Func, reflect.Chan, reflect.Interface, reflect.String, reflect.Bool, reflect.Int, reflect.Uint32, reflect.Uint64, reflect.Int64:
				vh = w.walk(val, depth+1)
			}
			sum += kh*1099511628211 ^ vh
		}
		put(fmt.Sprint(sum))
	}
	return h.Sum64()
}

// Snapshot fingerprints every registered package-level variable plus the names of the
// universe and unsafe scopes of go/types.
func Snapshot() []Entry {
	var out []Entry
	for _, g := range verifhook.Globals() {
		v := reflect.ValueOf(g.Addr)
		if v.Kind() != reflect.Pointer || v.IsNil() {
			continue
		}
		e := v.Elem()
		w := &walker{seen: map[unsafe.Pointer]bool{}}
		out = append(out, Entry{g.Pkg, g.Name, e.Kind(), w.walk(e, 0)})
	}
	h := fnv.New64a()
	h.Write([]byte(strings.Join(types.Universe.Names(), ",")))
	out = append(out, Entry{"go/types", "Universe.Names", reflect.Pointer, h.Sum64()}) // shared by every package: a change is a violation
	h = fnv.New64a()
	h.Write([]byte(strings.Join(types.Unsafe.Scope().Names(), ",")))
	out = append(out, Entry{"go/types", "Unsafe.Names", reflect.Pointer, h.Sum64()})
	sort.Slice(out, func(i, j int) bool { return out[i].Pkg+"."+out[i].Name < out[j].Pkg+"."+out[j].Name })
	return out
}

// Diff lists the variables whose fingerprint changed.
func Diff(a, b []Entry) []Entry {
	m := map[string]uint64{}
	for _, e := range a {
		m[e.Pkg+"."+e.Name] = e.Hash
	}
	var out []Entry
	for _, e := range b {
		if m[e.Pkg+"."+e.Name] != e.Hash {
			out = append(out, e)
		}
	}
	return out
}

// Singleton reports whether a variable of this kind is immutable by nature (a shared node
// or object), as opposed to a table, flag or cache.
func Singleton(k reflect.Kind) bool {
	return k == reflect.Pointer || k == reflect.Struct || k == reflect.Interface
}
