// Package run executes one front-end history: a program compiled through minicl under an
// explicit front-end schedule and fault plan, with its own importer and file set.
package run

import (
	"bytes"
	"fmt"
	"go/ast"
	"go/token"
	"go/types"
	"os"
	"os/exec"
	"runtime/debug"
	"sort"
	"strings"

	"github.com/goplus/gogen"

	"gogenverif/sim/imp"
	"gogenverif/sim/minicl"
	"gogenverif/sim/prog"
)

// Front is the front-end schedule and fault plan, explicit in every Record.
type Front struct {
	Eager          []int         `json:"eager,omitempty"`       // units declared up front, in this order (value mod #units)
	Lazy           []int         `json:"lazy,omitempty"`        // named types completed from LoadNamed (value mod #units, types only)
	BodyOrder      []int         `json:"body_order,omitempty"`  // order of function bodies (value mod #units)
	FileAssign     []int         `json:"file_assign,omitempty"` // unit i goes to file m<FileAssign[i mod len] mod NFiles>.go
	NFiles         int           `json:"nfiles,omitempty"`
	BodiesEarly    bool          `json:"bodies_early,omitempty"`
	ImportAtStart  bool          `json:"import_at_start,omitempty"`
	HandlerReturns bool          `json:"handler_returns,omitempty"` // HandleErr returns instead of panicking
	NoSkipConst    bool          `json:"no_skip_const,omitempty"`
	EarlyWrites    []int         `json:"early_writes,omitempty"`   // every file is written (and the result dropped) after these body ordinals
	FailedPrint    bool          `json:"failed_print,omitempty"`   // before the files are written, another package of the process (a function with a //go:build line in its doc comment, then a type that never got its underlying type) is printed; the printer panics half-way, the caller recovers
	LateRef        []int         `json:"late_ref,omitempty"`       // after the first round of writes: a new function (a name no import can take) in file LateRef[2k] referring to a package, preferably one the file referenced before only through a discarded operand
	LateForce      []int         `json:"late_force,omitempty"`     // after the first round of writes: force-import path LateForce[2k+1] into file LateForce[2k] (no declaration follows)
	Rewrites       int           `json:"rewrites,omitempty"`       // extra rounds of writing every file at the end (the last round counts)
	WriteOrder     []int         `json:"write_order,omitempty"`    // order in which the files are written at the end (permutation code)
	ReuseImporter  *imp.Importer `json:"-"`                        // environment: the importer (with every package it has imported) of an earlier build of the process
	SharedImporter bool          `json:"-"`                        // environment, not history: standard packages come from one importer shared by the builds of this process
	CompleteEarly  bool          `json:"complete_early,omitempty"` // grouped type declarations are closed before their lazily loaded members get a type
	XGoBuiltin     bool          `json:"xgo_builtin,omitempty"`    // XGo-style configuration: untyped big types, overloaded println, builtin-type methods
	Faults         []Fault       `json:"faults,omitempty"`
}

// Fault is one injected front-end fault, placed before statement Stmt of a body of unit
// Unit (both taken modulo what exists; Stmt counts statements of all nesting levels).
type Fault struct {
	Unit int    `json:"unit"`
	Stmt int    `json:"stmt"`
	Kind string `json:"kind"`
	Arg  int    `json:"arg"`
}

const BuiltinPath = "github.com/goplus/gogen/internal/builtin"

var FaultKinds = []string{"generic_decl", "generic_inst", "bti_call", "unsafe_ref", "unit_lit", "abort_return", "bigint_op", "discard_ref", "abort_stmt", "abort_init", "abort_endinit", "callex_err", "abort_header", "discard_reset", "vblock", "inline_closure"}

// Env is per-process: export data located once with the real go command, corpus with
// the results of the acceptance dry run.
type Env struct {
	Exports imp.Exports
	Corpus  map[string]*CorpusEntry
	Paths   []string // admitted corpus packages
	GoRoot  string
	Shared  *imp.SharedGC // lazily created
}

type CorpusEntry struct {
	Prog       *prog.Program
	DropUnits  map[string]bool
	DropBodies map[string]bool
	Units      int
	Rounds     int
}

// DiscardPaths are packages referenced only by discarded operands (never otherwise used by
// synthetic programs), so that a leaked import is attributable.
// ExtraStd are standard packages the injected constructs import.
var ExtraStd = []string{"sync/atomic", "time"}

// GenericPaths are packages whose only reference is the constraint of a generic declaration
// injected by the generic_decl construct (never otherwise used by synthetic programs).
var GenericPaths = []string{"cmp", "encoding", "hash", "image/color", "io/fs", "expvar"}

var genericMember = map[string]string{"cmp": "Ordered", "encoding": "TextMarshaler", "hash": "Hash32", "image/color": "Color", "io/fs": "FileInfo", "expvar": "Var"}

var DiscardPaths = []string{"encoding/json", "encoding/hex", "container/list", "hash/fnv", "bufio", "io"}

// LateForcePaths are force-imported after a first round of writes (std packages the
// synthetic programs may or may not also use by name, plus the discard-only ones).
var LateForcePaths = []string{"errors", "sort", "encoding/json", "bytes", "os", "container/list", "strings"}

var discardMember = map[string]string{"encoding/json": "Marshal", "encoding/hex": "EncodeToString", "container/list": "New", "hash/fnv": "New32", "bufio": "NewReader", "io": "EOF"}

// NewEnv locates export data. corpus=false skips loading GOROOT sources.
func NewEnv(corpus bool) (*Env, error) {
	goBin := os.Getenv("VERIF_REALGO")
	if goBin == "" {
		return nil, fmt.Errorf("VERIF_REALGO not set (use /verif/check)")
	}
	pkgs := append([]string{}, prog.StdImportPaths()...)
	pkgs = append(pkgs, DiscardPaths...)
	pkgs = append(pkgs, ExtraStd...)
	pkgs = append(pkgs, GenericPaths...)
	if corpus {
		pkgs = append(pkgs, prog.CorpusPaths...)
	}
	ex, err := imp.Locate(goBin, os.TempDir(), pkgs...)
	if err != nil {
		return nil, err
	}
	if repo := os.Getenv("VERIF_REPO"); repo != "" {
		// gogen's own XGo runtime package (untyped big types), from the tree under test
		bx, err := imp.Locate(goBin, repo, BuiltinPath)
		if err != nil {
			return nil, err
		}
		for k, v := range bx {
			if _, ok := ex[k]; !ok {
				ex[k] = v
			}
		}
	}
	e := &Env{Exports: ex, Corpus: map[string]*CorpusEntry{}}
	if corpus {
		out, err := runOut(goBin, "env", "GOROOT")
		if err != nil {
			return nil, err
		}
		e.GoRoot = strings.TrimSpace(out)
		seen := map[string]bool{}
		for _, p := range prog.CorpusPaths {
			if seen[p] {
				continue
			}
			seen[p] = true
			cp := prog.LoadCorpus(e.GoRoot, p)
			if cp == nil {
				continue
			}
			if ce := e.admit(cp); ce != nil {
				e.Corpus[p] = ce
				e.Paths = append(e.Paths, p)
			}
		}
		sort.Strings(e.Paths)
	}
	return e, nil
}

// admit performs the acceptance dry run: bodies (then units) gogen rejects under the
// plain schedule are dropped until a solo, fault-free build succeeds.
func (e *Env) admit(p *prog.Program) *CorpusEntry {
	ce := &CorpusEntry{Prog: p, DropUnits: map[string]bool{}, DropBodies: map[string]bool{}}
	for round := 0; round < 60; round++ {
		ce.Rounds = round + 1
		r := e.build(p, &Front{}, nil, ce, nil)
		if r.LoadErr != nil {
			return nil
		}
		ce.Units = r.Units
		if r.Rejected == "" {
			if r.Declared == 0 {
				return nil
			}
			return ce
		}
		if r.FailUnit == "" {
			return nil
		}
		if r.FailInBody && !ce.DropBodies[r.FailUnit] {
			ce.DropBodies[r.FailUnit] = true
		} else if !ce.DropUnits[r.FailUnit] {
			ce.DropUnits[r.FailUnit] = true
		} else {
			return nil
		}
	}
	return nil
}

// Result of one build.
type Result struct {
	LoadErr     error
	Rejected    string // gogen panicked: the program (or this history of it) was rejected
	Runtime     bool   // ... with a Go runtime error rather than a reported code error
	Stack       string // stack of a runtime error (frames in gogen only)
	FailUnit    string
	FailInBody  bool
	Names       []string
	Files       map[string][]byte
	WriteErr    map[string]string
	Diags       []string
	Ops         int
	Units       int
	Declared    int
	Bodies      int
	C           *minicl.Compiler
	Imp         *imp.Importer
	Fset        *token.FileSet
	FaultFired  map[string]int
	Discarded   []string            // import paths referenced only through discarded operands
	FirstFile   string              // the file that was current at the start (force-imports go there)
	XGoBuiltin  bool                // the XGo-style configuration was in effect
	LateForced  map[string][]string // file -> paths force-imported after the first write
	LateRefs    [][2]string         // (file, path) referenced by a function declared after the first write
	DiscardedIn [][2]string         // (file, path) of every discarded reference
}

// Build compiles p under front f. Every build has its own file set and importer.
func (e *Env) Build(p *prog.Program, f *Front, hooks *minicl.Hooks) *Result {
	return e.BuildWith(p, f, hooks, nil)
}

// Probe reports whether a program loads (parses and type-checks) without building it.
func (e *Env) Probe(p *prog.Program) error {
	if p.Corpus != "" {
		if e.Corpus[p.Corpus] == nil {
			return fmt.Errorf("corpus package %s not admitted", p.Corpus)
		}
		return nil
	}
	fset := token.NewFileSet()
	im := e.Exports.NewImporter(fset, p.Synthetics())
	var src []minicl.SrcFile
	for _, sf := range p.Files {
		src = append(src, minicl.SrcFile{Name: sf.Name, Text: sf.Text})
	}
	_, _, _, err := minicl.Load(fset, p.PkgPath, src, im)
	return err
}

// BuildSalted builds p with salted synthetic import paths and removes the salt from the
// files written, so that results of different salts are comparable.
func (e *Env) BuildSalted(p *prog.Program, f *Front, hooks *minicl.Hooks, salt int) *Result {
	if salt == 0 || p.Corpus != "" {
		return e.Build(p, f, hooks)
	}
	r := e.Build(prog.Salted(p, salt), f, hooks)
	for n, b := range r.Files {
		r.Files[n] = prog.Unsalt(b, salt)
	}
	for n, w := range r.WriteErr {
		r.WriteErr[n] = string(prog.Unsalt([]byte(w), salt))
	}
	for i, d := range r.Diags {
		r.Diags[i] = string(prog.Unsalt([]byte(d), salt))
	}
	r.Rejected = string(prog.Unsalt([]byte(r.Rejected), salt))
	return r
}

// BuildWith is Build with a callback that receives the compiler before it runs.
func (e *Env) BuildWith(p *prog.Program, f *Front, hooks *minicl.Hooks, onC func(*minicl.Compiler)) *Result {
	var ce *CorpusEntry
	if p.Corpus != "" {
		ce = e.Corpus[p.Corpus]
		if ce == nil {
			return &Result{LoadErr: fmt.Errorf("corpus package %s not admitted", p.Corpus)}
		}
		p = ce.Prog
	}
	return e.build(p, f, hooks, ce, onC)
}

func (e *Env) build(p *prog.Program, f *Front, hooks *minicl.Hooks, ce *CorpusEntry, onC func(*minicl.Compiler)) *Result {
	r := &Result{Files: map[string][]byte{}, WriteErr: map[string]string{}, FaultFired: map[string]int{}}
	fset := token.NewFileSet()
	var im *imp.Importer
	if f.ReuseImporter != nil {
		im = f.ReuseImporter
		fset = im.Fset()
	} else if f.SharedImporter {
		if e.Shared == nil {
			e.Shared = e.Exports.NewSharedGC()
		}
		fset = e.Shared.Fset
		im = e.Exports.NewImporterShared(e.Shared, p.Synthetics())
	} else {
		im = e.Exports.NewImporter(fset, p.Synthetics())
	}
	r.Fset = fset
	r.Imp = im
	var src []minicl.SrcFile
	for _, sf := range p.Files {
		src = append(src, minicl.SrcFile{Name: sf.Name, Text: sf.Text})
	}
	files, tp, info, err := minicl.Load(fset, p.PkgPath, src, im)
	if err != nil {
		r.LoadErr = err
		return r
	}
	conf := &gogen.Config{Fset: fset, Importer: im, NoSkipConstant: f.NoSkipConst}
	if f.XGoBuiltin {
		if _, ok := e.Exports[BuiltinPath]; ok {
			conf.NewBuiltin = func(pkg *gogen.Package, conf *gogen.Config) *types.Package {
				fmtp := pkg.Import("fmt")
				b := pkg.Import(BuiltinPath)
				builtin := types.NewPackage("", "")
				builtin.Scope().Insert(gogen.NewOverloadFunc(token.NoPos, builtin, "println", fmtp.Ref("Println")))
				conf.UntypedBigInt = b.Ref("XGo_untyped_bigint").Type().(*types.Named)
				conf.UntypedBigRat = b.Ref("XGo_untyped_bigrat").Type().(*types.Named)
				conf.UntypedBigFloat = b.Ref("XGo_untyped_bigfloat").Type().(*types.Named)
				gogen.InitBuiltin(pkg, builtin, conf)
				pkg.BuiltinTI(types.Typ[types.String]).AddMethods(&gogen.BuiltinMethod{Name: "Capitalize", Fn: b.Ref("Capitalize")})
				// a front end extending the method tables of slices and channels of its own package
				sortp := pkg.Import("sort")
				pkg.BuiltinTI(types.NewSlice(types.Typ[types.Int])).AddMethods(&gogen.BuiltinMethod{Name: "Sort", Fn: sortp.Ref("Ints")})
				pkg.BuiltinTI(types.NewChan(types.SendRecv, types.Typ[types.Int])).AddMethods(&gogen.BuiltinMethod{Name: "Str", Fn: fmtp.Ref("Sprint")})
				return builtin
			}
			r.XGoBuiltin = true
		}
	}
	conf.HandleErr = func(err error) {
		r.Diags = append(r.Diags, err.Error())
		if !f.HandlerReturns {
			panic(err)
		}
	}
	early := map[int]bool{}
	for _, v := range f.EarlyWrites {
		early[v] = true
	}
	opts := &minicl.Options{PkgPath: p.PkgPath, PkgName: tp.Name(), Conf: conf, Hooks: hooks,
		BodiesEarly: f.BodiesEarly, ImportAtStart: f.ImportAtStart, ForceImports: p.ForceImports, CompleteEarly: f.CompleteEarly}
	if ce != nil {
		opts.DropUnits, opts.DropBodies = ce.DropUnits, ce.DropBodies
	}
	c := minicl.New(fset, files, tp, info, opts)
	r.C = c
	if len(early) > 0 {
		nbody := 0
		opts.AfterBody = func(c *minicl.Compiler) {
			if early[nbody] {
				// a client that writes files while it is still building (and again at the end)
				seenF := map[string]bool{}
				for _, s := range c.Syms() {
					if !seenF[s.File] {
						seenF[s.File] = true
						var sink bytes.Buffer
						func() {
							defer func() { recover() }()
							c.Pkg.WriteTo(&sink, s.File)
						}()
					}
				}
				r.FaultFired["early_write"]++
			}
			nbody++
		}
	}
	if onC != nil {
		onC(c)
	}
	n := len(c.Syms())
	r.Units = n
	if n == 0 {
		r.LoadErr = fmt.Errorf("empty program")
		return r
	}
	for _, v := range f.Eager {
		opts.Eager = append(opts.Eager, mod(v, n))
	}
	for _, v := range f.BodyOrder {
		opts.BodyOrder = append(opts.BodyOrder, mod(v, n))
	}
	if len(f.Lazy) > 0 {
		opts.Lazy = map[int]bool{}
		types := c.SortedSymIndex(minicl.IsTypeSym)
		if len(types) > 0 {
			for _, v := range f.Lazy {
				opts.Lazy[types[mod(v, len(types))]] = true
			}
		}
	}
	if f.NFiles > 0 && len(f.FileAssign) > 0 {
		groupFile := map[any]string{}
		for i, s := range c.Syms() {
			s.File = fmt.Sprintf("m%d.go", mod(f.FileAssign[i%len(f.FileAssign)], f.NFiles))
			if g := s.Group(); g != nil { // a grouped declaration stays in one file
				if gf, ok := groupFile[g]; ok {
					s.File = gf
				} else {
					groupFile[g] = s.File
				}
			}
		}
	}
	r.Declared, r.Bodies, _ = c.Analyse()
	if len(f.Faults) > 0 {
		inj := &injector{r: r, f: f, e: e, p: p}
		funcs := c.SortedSymIndex(minicl.IsFuncSym)
		inj.plan = map[[2]int][]Fault{}
		if len(funcs) > 0 {
			for _, ft := range f.Faults {
				u := funcs[mod(ft.Unit, len(funcs))]
				inj.plan[[2]int{u, mod(ft.Stmt, 6)}] = append(inj.plan[[2]int{u, mod(ft.Stmt, 6)}], ft)
			}
		}
		opts.Inject = inj.inject
	}
	func() {
		defer func() {
			if rec := recover(); rec != nil {
				r.Rejected = fmt.Sprint(rec)
				if _, ok := rec.(interface{ RuntimeError() }); ok {
					r.Runtime = true
					r.Stack = trimStack(string(debug.Stack()))
				}
				if c.InBody() {
					if u := c.CurUnit(); u != nil {
						r.FailUnit, r.FailInBody = u.Key(), true
					}
				}
				if d := c.Declaring(); d != nil {
					r.FailUnit, r.FailInBody = d.Key(), false
				}
			}
		}()
		c.Run()
	}()
	if c.B != nil {
		r.Ops = c.B.N
	}
	if r.Rejected != "" {
		return r
	}
	seen := map[string]bool{}
	for _, s := range c.Syms() {
		if !seen[s.File] {
			seen[s.File] = true
			r.Names = append(r.Names, s.File)
		}
	}
	if len(files) > 0 {
		r.FirstFile = files[0].Name
	}
	for i, sf := range files {
		if !seen[sf.Name] && (!(f.NFiles > 0 && len(f.FileAssign) > 0) || (i == 0 && len(p.ForceImports) > 0)) {
			seen[sf.Name] = true
			r.Names = append(r.Names, sf.Name)
		}
	}
	// only files the package really has (a source file all of whose declarations went
	// elsewhere, or were outside the subset, was never created)
	kept := r.Names[:0]
	for _, n := range r.Names {
		if _, ok := c.Pkg.File(n); ok {
			kept = append(kept, n)
		}
	}
	r.Names = kept
	sort.Strings(r.Names)
	worder := append([]string(nil), r.Names...)
	if len(f.WriteOrder) > 0 && len(worder) > 1 {
		k := mod(f.WriteOrder[0], len(worder))
		worder = append(worder[k:], worder[:k]...)
		if len(f.WriteOrder) > 1 && f.WriteOrder[1]%2 == 1 {
			for i, j := 0, len(worder)-1; i < j; i, j = i+1, j-1 {
				worder[i], worder[j] = worder[j], worder[i]
			}
		}
	}
	if (len(f.LateForce) >= 2 || len(f.LateRef) >= 2) && len(worder) > 0 {
		// every file is written once, then more packages are force-imported, then the
		// files are written again
		for _, name := range worder {
			var sink bytes.Buffer
			func() {
				defer func() { recover() }()
				c.Pkg.WriteTo(&sink, name)
			}()
		}
		r.LateForced = map[string][]string{}
		for k := 0; k+1 < len(f.LateForce); k += 2 {
			file := worder[mod(f.LateForce[k], len(worder))]
			path := LateForcePaths[mod(f.LateForce[k+1], len(LateForcePaths))]
			old, err := c.Pkg.SetCurFile(file, true)
			if err != nil {
				continue
			}
			c.Pkg.ForceImport(path)
			c.Pkg.RestoreCurFile(old)
			r.LateForced[file] = append(r.LateForced[file], path)
			r.FaultFired["late_force_import"]++
		}
	}
	if len(f.LateRef) >= 2 && len(worder) > 0 && r.Rejected == "" {
		// the files have been written once; now a function is added whose body refers to a
		// package - one whose only earlier reference in that file was built and discarded,
		// if there is such a file - and the files are written again. The function's name
		// cannot collide with an import (the names of imports are fixed by the first write).
		for k := 0; k+1 < len(f.LateRef); k += 2 {
			file := worder[mod(f.LateRef[k], len(worder))]
			path := DiscardPaths[mod(f.LateRef[k+1], len(DiscardPaths))]
			if len(r.DiscardedIn) > 0 {
				d := r.DiscardedIn[mod(f.LateRef[k+1], len(r.DiscardedIn))]
				for _, n := range worder {
					if n == d[0] {
						file, path = d[0], d[1]
					}
				}
			}
			old, err := c.Pkg.SetCurFile(file, true)
			if err != nil {
				continue
			}
			func() {
				defer func() {
					if rec := recover(); rec != nil {
						r.FaultFired["late_ref_rejected"]++
					}
				}()
				ref := c.Pkg.Import(path).Ref(discardMember[path])
				fn := c.Pkg.NewFunc(nil, fmt.Sprintf("ZzLate%d", k/2), nil, nil, false)
				fn.BodyStart(c.Pkg).VarRef(nil).Val(ref).Assign(1, 1).EndStmt().End()
				c.RefTags = append(c.RefTags, minicl.RefTag{File: file, Path: path, Name: discardMember[path]})
				r.LateRefs = append(r.LateRefs, [2]string{file, path})
				r.FaultFired["late_reference"]++
			}()
			c.Pkg.RestoreCurFile(old)
		}
	}
	if f.FailedPrint {
		func() {
			defer func() {
				if rec := recover(); rec != nil {
					r.FaultFired["failed_print"]++
				}
			}()
			zp := gogen.NewPackage("", "zzfailed", &gogen.Config{Fset: fset, Importer: im})
			fn := zp.NewFunc(nil, "F", nil, nil, false)
			fn.SetComments(zp, &ast.CommentGroup{List: []*ast.Comment{{Text: "//go:build ignore"}, {Text: "// F does nothing."}}})
			fn.BodyStart(zp).End()
			zp.NewType("T") // never initialised: printing it fails
			var sink bytes.Buffer
			zp.WriteTo(&sink)
		}()
	}
	for round := 0; round < f.Rewrites; round++ {
		for i := len(worder) - 1; i >= 0; i-- {
			var sink bytes.Buffer
			func() {
				defer func() { recover() }()
				c.Pkg.WriteTo(&sink, worder[i])
			}()
		}
		r.FaultFired["rewrite_round"]++
	}
	for _, name := range worder {
		var buf bytes.Buffer
		func() {
			defer func() {
				if rec := recover(); rec != nil {
					r.WriteErr[name] = "panic: " + fmt.Sprint(rec)
				}
			}()
			if err := c.Pkg.WriteTo(&buf, name); err != nil {
				r.WriteErr[name] = err.Error()
			}
		}()
		r.Files[name] = buf.Bytes()
	}
	return r
}

func mod(v, n int) int {
	if n <= 0 {
		return 0
	}
	v %= n
	if v < 0 {
		v += n
	}
	return v
}

type injector struct {
	r       *Result
	f       *Front
	e       *Env
	p       *prog.Program
	plan    map[[2]int][]Fault
	count   map[[2]int]int
	fired   map[*Fault]bool
	n       int
	generic bool
}

func (in *injector) inject(c *minicl.Compiler, unit, stmt, depth int) {
	key := [2]int{unit, stmt}
	fs := in.plan[key]
	if len(fs) == 0 {
		return
	}
	if in.count == nil {
		in.count = map[[2]int]int{}
		in.fired = map[*Fault]bool{}
	}
	// the same statement ordinal recurs in nested blocks and closures of the unit: a fault
	// fires at the k-th occurrence, k from its argument, so that nested bodies (closures
	// opened with operands pending) are reached too
	in.count[key]++
	for i := range fs {
		ft := &fs[i]
		if in.fired[ft] {
			continue
		}
		if in.count[key] == 1+mod(ft.Arg/4, 3) {
			in.fired[ft] = true
			in.fire(c, *ft)
		}
	}
}

func (in *injector) fire(c *minicl.Compiler, ft Fault) {
	cb := c.Pkg.CB()
	in.r.FaultFired[ft.Kind]++
	recoverTo := func(f func()) (panicked bool) {
		defer func() {
			if rec := recover(); rec != nil {
				panicked = true
			}
		}()
		f()
		return false
	}
	switch ft.Kind {
	case "discard_ref", "discard_reset":
		path := DiscardPaths[mod(ft.Arg, len(DiscardPaths))]
		ref := c.Pkg.Import(path).Ref(discardMember[path])
		in.r.Discarded = append(in.r.Discarded, path)
		if cf := c.Pkg.CurFile(); cf != nil {
			in.r.DiscardedIn = append(in.r.DiscardedIn, [2]string{cf.Name(), path})
		}
		c.B.Val(ref)
		if ft.Kind == "discard_ref" {
			c.B.Discard(1)
		} else {
			c.B.ResetStmt()
		}
	case "abort_stmt":
		if recoverTo(func() {
			switch mod(ft.Arg, 4) {
			case 0:
				c.B.Val(1)
				c.B.Val("a")
				c.B.BinaryOp(token.SUB)
			case 1:
				c.B.Val("s")
				c.B.MemberVal("nosuchmember")
			case 2:
				c.B.Val(c.Pkg.Import("strconv").Ref("Itoa"))
				c.B.Val("x")
				c.B.Val(2)
				c.B.Call(2, false)
			case 3:
				c.B.Val(1)
				c.B.Val(2)
				c.B.Index(1, 0)
			}
			c.B.EndStmt()
		}) {
			c.B.Abort()
			c.B.ResetStmt()
		}
	case "abort_init":
		if recoverTo(func() {
			c.B.DefineVarStart(token.NoPos, "zzAbort")
			c.B.Val(1)
			c.B.Val("a")
			c.B.BinaryOp(token.SUB)
			c.B.EndInit(1)
		}) {
			c.B.Abort()
			c.B.ResetInit()
			c.B.ResetStmt()
		}
	case "abort_return":
		// the operands of a return statement failed to compile: Return(n) is still issued
		fn := cb.Func()
		if fn == nil {
			in.r.FaultFired[ft.Kind]--
			return
		}
		sig, _ := fn.Type().(*types.Signature)
		if sig == nil || sig.Results().Len() == 0 {
			in.r.FaultFired[ft.Kind]--
			return
		}
		// inside a conditional, so that the rest of the body stays reachable
		c.B.If()
		c.B.Val(c.Pkg.Import("strconv").Ref("Itoa"))
		c.B.Val(ft.Arg)
		c.B.Call(1, false)
		c.B.Val("x")
		c.B.BinaryOp(token.EQL)
		c.B.Then()
		c.B.ReturnShort(sig.Results().Len())
		c.B.End()
	case "abort_endinit":
		// the initialiser itself is fine, EndInit fails (names vs. values). EndInit's deferred
		// cleanup pops the operands and ends the initialiser context even then; the
		// value-declaration context is only restored by ResetInit, which is what a front
		// end calls for any failure between InitStart and the return of EndInit
		vb := mod(ft.Arg, 2) == 1
		if vb {
			c.B.VBlock()
		}
		if recoverTo(func() {
			c.B.DefineVarStart(token.NoPos, fmt.Sprintf("zzE%d", in.n), fmt.Sprintf("zzF%d", in.n))
			in.n++
			c.B.Val(1)
			c.B.EndInit(1)
		}) {
			c.B.EndInitFailed()
			c.B.ResetInit()
			c.B.ResetStmt()
		}
		if vb {
			c.B.End()
		}
	case "callex_err":
		c.B.Val(c.Pkg.Import("strconv").Ref("Itoa"))
		c.B.Val("x")
		c.B.Val(2)
		if err := c.B.CallWithEx(2, 0); err == nil {
			c.B.EndStmt()
		} else {
			c.B.ResetStmt()
		}
	case "generic_inst":
		// not a fault: an imported generic type instantiated with an alias declared in the
		// package being built, used as the type of a package-level variable
		if in.generic {
			in.r.FaultFired[ft.Kind]--
			return
		}
		in.generic = true
		orig := c.Pkg.Import("sync/atomic").Ref("Pointer").Type()
		alias := c.Pkg.AliasType("ZzCount", types.Typ[types.Int])
		inst := c.Pkg.Instantiate(orig, []types.Type{alias})
		c.Pkg.NewVar(token.NoPos, inst, "ZzHits")
	case "generic_decl":
		// not a fault: a package-level generic function or generic type whose type-parameter
		// constraint comes from an imported package - in most files the only reference to it
		path := GenericPaths[mod(ft.Arg, len(GenericPaths))]
		member := genericMember[path]
		o := c.Pkg.Import(path).TryRef(member)
		if o == nil {
			in.r.FaultFired[ft.Kind]--
			return
		}
		name := fmt.Sprintf("ZzGen%d", in.n)
		in.n++
		tp := types.NewTypeParam(types.NewTypeName(token.NoPos, c.Pkg.Types, "T", nil), o.Type())
		if recoverTo(func() {
			switch mod(ft.Arg/8, 3) {
			case 0, 2:
				x := types.NewParam(token.NoPos, c.Pkg.Types, "x", tp)
				tps := []*types.TypeParam{tp}
				if mod(ft.Arg/8, 3) == 2 { // the constraint on the second of two parameters
					tps = []*types.TypeParam{types.NewTypeParam(types.NewTypeName(token.NoPos, c.Pkg.Types, "K", nil), types.Universe.Lookup("any").Type()), tp}
				}
				sig := types.NewSignatureType(nil, nil, tps, types.NewTuple(x), types.NewTuple(types.NewParam(token.NoPos, c.Pkg.Types, "", tp)), false)
				fn, err := c.Pkg.NewFuncWith(token.NoPos, name, sig, nil)
				if err != nil {
					panic(err)
				}
				fn.BodyStart(c.Pkg).Val(x).Return(1).End()
			case 1:
				fld := types.NewField(token.NoPos, c.Pkg.Types, "V", tp, false)
				c.Pkg.NewType(name).InitType(c.Pkg, types.NewStruct([]*types.Var{fld}, nil), tp)
			}
		}) {
			in.r.FaultFired[ft.Kind]--
			in.r.FaultFired["generic_decl_rejected"]++
			return
		}
		c.TagRef(path, member)
	case "bti_call":
		// not a fault: a method of a builtin type registered by the front end (XGo configuration)
		if !in.r.XGoBuiltin {
			in.r.FaultFired[ft.Kind]--
			return
		}
		switch mod(ft.Arg, 3) {
		case 0:
			c.B.Val("abc")
			c.B.BTICall("Capitalize", 0)
			c.B.EndStmt()
		default:
			c.B.Val(3)
			c.B.Val(ft.Arg)
			c.B.SliceLit(types.NewSlice(types.Typ[types.Int]), 2, false)
			c.B.BTICall("Sort", 0)
			c.B.EndStmt()
		}
	case "unsafe_ref":
		// not a fault: package unsafe imported by path (every importer answers with the
		// process-wide types.Unsafe)
		c.B.DefineVarStart(token.NoPos, fmt.Sprintf("zzS%d", in.n))
		in.n++
		c.B.Val(c.Pkg.Import("unsafe").Ref("Sizeof"))
		c.B.Val(ft.Arg)
		c.B.Call(1, false)
		c.B.EndInit(1)
	case "unit_lit":
		// not a fault: a literal with a unit of a type from a synthetic XGo package
		if len(in.p.XGo) == 0 || mod(ft.Arg, 4) == 3 {
			// the unit table gogen itself knows: time.Duration
			o := c.Pkg.Import("time").TryRef("Duration")
			if o == nil {
				in.r.FaultFired[ft.Kind]--
				return
			}
			c.B.DefineVarStart(token.NoPos, fmt.Sprintf("zzU%d", in.n))
			in.n++
			c.B.ValWithUnit(fmt.Sprint(2+mod(ft.Arg, 7)), o.Type(), []string{"s", "ms", "h", "us", "m"}[mod(ft.Arg, 5)])
			c.B.EndInit(1)
			return
		}
		x := in.p.XGo[mod(ft.Arg, len(in.p.XGo))]
		o := c.Pkg.Import(x.Path).TryRef("Dist")
		if o == nil {
			in.r.FaultFired[ft.Kind]--
			return
		}
		c.B.DefineVarStart(token.NoPos, fmt.Sprintf("zzU%d", in.n))
		in.n++
		c.B.ValWithUnit(fmt.Sprint(2+mod(ft.Arg, 7)), o.Type(), []string{"m", "cm", "m", "mm", "m"}[mod(ft.Arg, 5)])
		c.B.EndInit(1)
	case "bigint_op":
		// not a fault: untyped big-number arithmetic (XGo configuration only)
		if !in.r.XGoBuiltin {
			in.r.FaultFired[ft.Kind]--
			return
		}
		c.B.DefineVarStart(token.NoPos, fmt.Sprintf("zzBig%d", in.n))
		in.n++
		c.B.BigInt(int64(1000 + ft.Arg))
		c.B.BigInt(int64(7 + ft.Arg))
		c.B.BinaryOp([]token.Token{token.MUL, token.ADD, token.QUO, token.SUB}[mod(ft.Arg, 4)])
		c.B.EndInit(1)
	case "vblock":
		// not a fault: XGo-only constructs that Go source cannot express
		c.B.VBlock()
		c.B.Val(c.Pkg.Import("strconv").Ref("Itoa"))
		c.B.Val(ft.Arg)
		c.B.Call(1, false)
		c.B.EndStmt()
		if mod(ft.Arg, 2) == 1 {
			// constructs opened and closed inside the virtual block
			c.B.DefineVarStart(token.NoPos, fmt.Sprintf("zzV%d", in.n))
			in.n++
			c.B.Val(ft.Arg)
			c.B.EndInit(1)
			c.B.If()
			c.B.Val(c.Pkg.Import("strconv").Ref("Itoa"))
			c.B.Val(1)
			c.B.Call(1, false)
			c.B.Val("1")
			c.B.BinaryOp(token.EQL)
			c.B.Then()
			c.B.VBlock()
			c.B.Val(c.Pkg.Import("strconv").Ref("Itoa"))
			c.B.Val(2)
			c.B.Call(1, false)
			c.B.EndStmt()
			c.B.End()
			c.B.End()
		}
		c.B.End()
	case "inline_closure":
		tyInt := types.Typ[types.Int]
		x := c.Pkg.NewParam(token.NoPos, "x", tyInt, false)
		ret := c.Pkg.NewParam(token.NoPos, "", tyInt, false)
		sig := types.NewSignatureType(nil, nil, nil, types.NewTuple(x), types.NewTuple(ret), false)
		c.B.DefineVarStart(token.NoPos, fmt.Sprintf("zzInline%d", in.n))
		in.n++
		if mod(ft.Arg, 3) == 2 {
			// with an operand of the enclosing expression below the call arguments
			c.B.Val(100)
			c.B.Val(ft.Arg)
			c.B.InlineStart(sig, 1)
			c.B.Val(x)
			c.B.Val(1)
			c.B.BinaryOp(token.ADD)
			c.B.Return(1)
			c.B.End()
			c.B.BinaryOp(token.ADD)
		} else {
			c.B.Val(ft.Arg)
			c.B.InlineStart(sig, 1)
			c.B.Val(x)
			c.B.Val(1)
			c.B.BinaryOp(token.ADD)
			c.B.Return(1)
			c.B.End()
		}
		c.B.EndInit(1)
	case "abort_header":
		// a switch whose tag fails to build; recovery is End() on the half-open construct
		c.B.Switch()
		if recoverTo(func() {
			c.B.Val(1)
			c.B.Val("a")
			c.B.BinaryOp(token.SUB)
			c.B.Then()
		}) {
			c.B.Abort()
			c.B.ResetStmt()
		}
		c.B.End()
	}
	_ = cb
}

func runOut(bin string, args ...string) (string, error) {
	var out bytes.Buffer
	cmd := exec.Command(bin, args...)
	cmd.Stdout = &out
	err := cmd.Run()
	return out.String(), err
}

// trimStack keeps the frames that lie in gogen (function lines only).
func trimStack(st string) string {
	var out []string
	for _, l := range strings.Split(st, "\n") {
		if strings.HasPrefix(l, "github.com/goplus/gogen") {
			if i := strings.LastIndex(l, "("); i > 0 {
				l = l[:i]
			}
			out = append(out, l)
			if len(out) >= 12 {
				break
			}
		}
	}
	return strings.Join(out, " <- ")
}

// Names0 is the file that received the force-imports.
func (r *Result) Names0() string { return r.FirstFile }

// SharedScopes is the content of go/types' process-wide scopes; nothing a build does may
// change it (it is shared with every other build and every other user of go/types).
func SharedScopes() string {
	return strings.Join(types.Universe.Names(), ",") + "|" + strings.Join(types.Unsafe.Scope().Names(), ",")
}
