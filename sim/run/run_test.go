package run

import (
	"math/rand"
	"os"
	"testing"

	"gogenverif/sim/prog"
)

type rc struct{ r *rand.Rand }

func (c rc) Int(n int) int { return c.r.Intn(n) }

func TestEnv(t *testing.T) {
	if os.Getenv("VERIF_REALGO") == "" {
		t.Skip()
	}
	e, err := NewEnv(true)
	if err != nil {
		t.Fatal(err)
	}
	for _, p := range e.Paths {
		ce := e.Corpus[p]
		t.Logf("%s: units=%d dropUnits=%d dropBodies=%d rounds=%d", p, ce.Units, len(ce.DropUnits), len(ce.DropBodies), ce.Rounds)
	}
	t.Logf("admitted %d of %d", len(e.Paths), len(prog.CorpusPaths))
	ok, rej, bad := 0, 0, 0
	rejs := map[string]int{}
	for seed := 0; seed < 200; seed++ {
		c := rc{rand.New(rand.NewSource(int64(seed)))}
		p := prog.Generate(c, prog.GenOptions{MaxFiles: 3, MaxDecls: 8, MaxDepth: 3, Budget: 60, Lib: seed%2 == 0, WantXGo: seed % 4})
		f := &Front{}
		if seed%3 == 1 {
			f.Eager = []int{5, 3, 1}
			f.Lazy = []int{0, 1}
		}
		r := e.Build(p, f, nil)
		switch {
		case r.LoadErr != nil:
			bad++
		case r.Rejected != "":
			rej++
			rejs[r.Rejected]++
			if rej <= 6 {
				t.Logf("seed %d rejected (runtime=%v) in %s: %.200s", seed, r.Runtime, r.FailUnit, r.Rejected)
			}
		default:
			ok++
			if seed == 7 {
				for _, n := range r.Names {
					t.Logf("%s:\n%s", n, r.Files[n])
				}
			}
		}
	}
	t.Logf("synthetic: ok=%d rejected=%d invalid=%d", ok, rej, bad)
}
