package minicl

import (
	"bytes"
	"fmt"
	"go/ast"
	"go/parser"
	"go/token"
	"go/types"
	"os"
	"path/filepath"
	"runtime/debug"
	"strings"
	"testing"

	"github.com/goplus/gogen"

	"gogenverif/sim/imp"
)

func TestCorpus(t *testing.T) {
	goBin := os.Getenv("VERIF_REALGO")
	if goBin == "" {
		t.Skip("VERIF_REALGO not set")
	}
	pkgs := strings.Fields(os.Getenv("MINICL_PKGS"))
	if len(pkgs) == 0 {
		pkgs = []string{"container/list", "container/ring", "container/heap", "unicode/utf8", "unicode/utf16", "encoding/hex", "path", "hash/fnv", "text/tabwriter", "strconv", "bufio", "html", "errors", "sort", "strings", "bytes", "math/bits", "encoding/base64", "encoding/binary", "go/token", "text/scanner", "io", "fmt"}
	}
	ex, err := imp.Locate(goBin, ".", pkgs...)
	if err != nil {
		t.Fatal(err)
	}
	goroot := os.Getenv("VERIF_GOROOT")
	totalDecl, totalAll, totalBodies := 0, 0, 0
	for _, p := range pkgs {
		dir := filepath.Join(goroot, "src", p)
		ents, _ := os.ReadDir(dir)
		var src []SrcFile
		for _, e := range ents {
			n := e.Name()
			if !strings.HasSuffix(n, ".go") || strings.HasSuffix(n, "_test.go") {
				continue
			}
			b, _ := os.ReadFile(filepath.Join(dir, n))
			// honour build constraints crudely: skip files with a go:build line
			if bytes.Contains(b, []byte("//go:build")) && !bytes.Contains(b, []byte("//go:build !")) {
				continue
			}
			src = append(src, SrcFile{n, string(b)})
		}
		fset := token.NewFileSet()
		im := ex.NewImporter(fset, nil)
		files, tp, info, err := Load(fset, p, src, im)
		if err != nil {
			t.Logf("%s: skipped (does not type-check as selected): %v", p, err)
			continue
		}
		var diags []error
		opts := &Options{PkgPath: p, PkgName: tp.Name(), Conf: &gogen.Config{Fset: fset, Importer: im, HandleErr: func(err error) { diags = append(diags, err) }}}
		c := New(fset, files, tp, info, opts)
		d, b, n := c.Analyse()
		totalDecl += d
		totalAll += n
		totalBodies += b
		func() {
			defer func() {
				if r := recover(); r != nil {
					u := c.Syms()[c.curUnit]
					pos := fset.Position(c.lastPos)
					t.Errorf("%s: gogen/minicl panicked in unit %s at %v: %v", p, u.Name, pos, r)
					if os.Getenv("MINICL_STACK") != "" {
						t.Logf("%s", debug.Stack())
					}
				}
			}()
			c.Run()
			var parsed []*ast.File
			ofset := token.NewFileSet()
			for _, f := range files {
				var buf bytes.Buffer
				if err := c.Pkg.WriteTo(&buf, f.Name); err != nil {
					t.Errorf("%s/%s: WriteTo: %v", p, f.Name, err)
					return
				}
				af, err := parser.ParseFile(ofset, f.Name, buf.Bytes(), 0)
				if err != nil {
					t.Errorf("%s/%s: output does not parse: %v", p, f.Name, err)
					return
				}
				parsed = append(parsed, af)
			}
			var terrs []string
			tc := types.Config{Importer: ex.NewImporter(ofset, nil), Error: func(err error) { terrs = append(terrs, err.Error()) }}
			tc.Check(p, ofset, parsed, nil)
			if len(terrs) > 0 {
				t.Errorf("%s: output has %d type errors, first: %s", p, len(terrs), terrs[0])
			}
			t.Logf("%s: %d/%d units, %d bodies, %d ops, diags=%d, ondemand=%d", p, d, n, b, c.B.N, len(diags), c.OnDemand)
			if len(diags) > 0 {
				t.Logf("   first diag: %v", diags[0])
			}
		}()
	}
	fmt.Printf("units %d/%d bodies %d\n", totalDecl, totalAll, totalBodies)
}
