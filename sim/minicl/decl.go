package minicl

import (
	"go/ast"
	"go/token"
	"go/types"

	"github.com/goplus/gogen"
)

// ---- types

func (c *Compiler) declType(s *Sym) {
	ts := s.typeSpec
	obj := s.Objs[0].(*types.TypeName)
	if ts.TypeParams != nil {
		unsupported("generic type declaration")
	}
	if ts.Assign.IsValid() { // alias
		t := c.typ(types.Unalias(obj.Type()))
		c.Pkg.AliasType(ts.Name.Name, t)
		return
	}
	srcNamed := obj.Type().(*types.Named)
	var decl *gogen.TypeDecl
	if s.genDecl != nil {
		// grouped declaration: one TypeDefs block for all specs of the group, opened in
		// the file that is current when the first of them is declared
		if c.typeGroups == nil {
			c.typeGroups = map[*ast.GenDecl]*gogen.TypeDefs{}
		}
		defs := c.typeGroups[s.genDecl]
		if defs == nil {
			defs = c.Pkg.NewTypeDefs()
			c.typeGroups[s.genDecl] = defs
			c.groupOrder = append(c.groupOrder, defs)
		}
		decl = defs.NewType(ts.Name.Name)
	} else {
		decl = c.Pkg.NewType(ts.Name.Name)
	}
	if d := docOf(ts.Doc); d != nil {
		decl.SetComments(c.Pkg, d)
	}
	s.tdecl = decl
	c.named[srcNamed] = decl.Type()
	s.state = stDeclared // recursive references see the declared name
	if s.lazy {
		return // completed from LoadNamed (or at the end)
	}
	c.completeType(s)
}

func (c *Compiler) completeType(s *Sym) {
	if s.tdecl.Inited() {
		return
	}
	obj := s.Objs[0].(*types.TypeName)
	srcNamed := obj.Type().(*types.Named)
	c.withFile(s.File, func() {
		under := c.typ(c.info.TypeOf(s.typeSpec.Type))
		s.tdecl.InitType(c.Pkg, under)
	})
	// methods are declared with the type, as XGo's loadType does
	for i := 0; i < srcNamed.NumMethods(); i++ {
		if ms := c.byObj[srcNamed.Method(i)]; ms != nil {
			c.ensure(ms)
		}
	}
}

// loadNamed is gogen's LoadNamed callback: it fires in the middle of member lookup,
// indexing, conversion... for every named type without methods or underlying type.
func (c *Compiler) loadNamed(at *gogen.Package, t *types.Named) {
	for _, s := range c.syms {
		if s.Kind == symType && s.tdecl != nil && s.tdecl.Type() == t {
			if s.lazy && s.Failed == nil && !s.tdecl.Inited() {
				c.LazyFired++
				c.enter("lazyload", s.Name)
				defer c.leave("lazyload", s.Name)
				c.completeType(s)
			}
			return
		}
	}
}

// ---- variables

func (c *Compiler) declVar(s *Sym) {
	vs := s.valSpec
	var t types.Type
	if vs.Type != nil {
		t = c.typExpr(vs.Type)
	}
	names := make([]string, len(vs.Names))
	for i, n := range vs.Names {
		names[i] = n.Name
	}
	if len(vs.Values) == 0 {
		c.Pkg.NewVar(token.NoPos, t, names...)
		return
	}
	if h := c.opts.Hooks; h != nil && h.Before != nil {
		h.Before("NewVarStart")
	}
	c.B.N++
	c.Pkg.NewVarStart(token.NoPos, t, names...)
	c.B.post("InitStart", 0, 0)
	for _, v := range vs.Values {
		c.expr(v)
	}
	c.B.EndInit(len(vs.Values))
}

// ---- constants (whole block at once: iota and implicit repetition)

func (c *Compiler) declConst(s *Sym) {
	c.constBlock(s.genDecl, c.Pkg.NewConstDefs(c.Pkg.Types.Scope()))
}

func (c *Compiler) constBlock(d *ast.GenDecl, defs *gogen.ConstDefs) {
	lastN := 0
	for i, sp := range d.Specs {
		vs := sp.(*ast.ValueSpec)
		names := make([]string, len(vs.Names))
		for k, n := range vs.Names {
			names[k] = n.Name
		}
		if len(vs.Values) == 0 {
			// implicit repetition: gogen re-runs the previous initialiser callback
			c.B.pre("NewConstStart")
			defs.Next(i, token.NoPos, names...)
			c.B.post("EndInit", lastN, 0)
			continue
		}
		var t types.Type
		if vs.Type != nil {
			t = c.typExpr(vs.Type)
		}
		vals := vs.Values
		lastN = len(vals)
		c.B.pre("NewConstStart")
		defs.New(func(cb *gogen.CodeBuilder) int {
			c.B.post("InitStart", 0, 0)
			for _, v := range vals {
				c.expr(v)
			}
			return len(vals)
		}, i, token.NoPos, t, names...)
		c.B.post("EndInit", len(vals), 0)
	}
}

// ---- functions

func (c *Compiler) declFunc(s *Sym) {
	d := s.funcDecl
	if d.Type.TypeParams != nil {
		unsupported("generic function")
	}
	obj, _ := s.Objs[0].(*types.Func)
	if obj == nil {
		unsupported("function without object")
	}
	ssig := obj.Type().(*types.Signature)
	var recv *types.Var
	if r := ssig.Recv(); r != nil {
		rt := r.Type()
		if p, ok := rt.(*types.Pointer); ok {
			rt = p.Elem()
		}
		n, ok := types.Unalias(rt).(*types.Named)
		if !ok {
			unsupported("receiver %v", rt)
		}
		if n.TypeParams().Len() > 0 {
			unsupported("generic receiver")
		}
		// the receiver's type must be declared (possibly still loading)
		if ts := c.byObj[n.Obj()]; ts != nil {
			c.ensure(ts)
			if ts.Failed != nil {
				panic(ts.Failed.(Unsupported))
			}
		}
		recv = c.Pkg.NewParam(token.NoPos, r.Name(), c.typ(r.Type()), false)
	}
	sig := c.sig(ssig, recv)
	if d.Body == nil {
		s.fn = c.Pkg.NewFuncDecl(token.NoPos, d.Name.Name, sig)
		return
	}
	s.fn = c.Pkg.NewFunc(recv, d.Name.Name, sig.Params(), sig.Results(), sig.Variadic())
	if doc := docOf(d.Doc); doc != nil {
		s.fn.SetComments(c.Pkg, doc)
	}
}

// docOf turns a documentation comment of the source into the position-less form gogen takes.
func docOf(g *ast.CommentGroup) *ast.CommentGroup {
	if g == nil || len(g.List) == 0 {
		return nil
	}
	out := &ast.CommentGroup{}
	for i, cm := range g.List {
		t := cm.Text
		if i == 0 {
			t = "\n" + t
		}
		out.List = append(out.List, &ast.Comment{Text: t})
	}
	return out
}

// body compiles the body of function unit i (declaring the function first if needed).
func (c *Compiler) body(i int) {
	s := c.syms[i]
	if s.Kind != symFunc && s.Kind != symMethod {
		return
	}
	c.ensure(s)
	if s.Failed != nil || s.fn == nil || s.state == stBodyDone || s.funcDecl.Body == nil {
		return
	}
	s.state = stBodyDone
	c.withFile(s.File, func() {
		c.curUnit = i
		c.B.BodyStart(s.fn, c.Pkg)
		if s.stubBody {
			c.B.Val(c.lookup("panic"))
			c.B.Val("minicl: body outside the subset")
			c.B.Call(1, false)
			c.B.EndStmt()
		} else {
			c.funcBody(s.funcDecl.Body, i)
		}
		c.B.End()
	})
	if c.opts.AfterBody != nil {
		c.opts.AfterBody(c)
	}
}

func (c *Compiler) funcBody(b *ast.BlockStmt, unit int) {
	saved := c.labels
	c.labels = map[string]*gogen.Label{}
	// labels first: goto may jump forward
	ast.Inspect(b, func(n ast.Node) bool {
		switch n := n.(type) {
		case *ast.FuncLit:
			return false
		case *ast.LabeledStmt:
			c.labels[n.Label.Name] = c.Pkg.CB().NewLabel(token.NoPos, token.NoPos, n.Label.Name)
		}
		return true
	})
	c.stmtDepth++
	c.stmts(b.List)
	c.stmtDepth--
	c.labels = saved
}
