package minicl

import (
	"github.com/goplus/gogen"
	"go/ast"
	"go/token"
	"go/types"
)

// lookup resolves a name through the builder's scopes, as XGo's front end does.
func (c *Compiler) lookup(name string) types.Object {
	_, o := c.Pkg.CB().Scope().LookupParent(name, token.NoPos)
	return o
}

// refObj returns the gogen-side object for an identifier of the source.
func (c *Compiler) refObj(id *ast.Ident) types.Object {
	obj := c.info.Uses[id]
	if obj == nil {
		obj = c.info.Defs[id]
	}
	if obj == nil {
		unsupported("unresolved identifier %s", id.Name)
	}
	if obj.Pkg() == c.src && obj.Parent() == c.src.Scope() {
		if s := c.byObj[obj]; s != nil {
			c.ensure(s)
			if s.Failed != nil {
				panic(s.Failed.(Unsupported))
			}
		}
		o := c.Pkg.Types.Scope().Lookup(id.Name)
		if o == nil {
			unsupported("package-level %s not declared", id.Name)
		}
		return o
	}
	o := c.lookup(id.Name)
	if o == nil {
		unsupported("identifier %s not in scope", id.Name)
	}
	return o
}

func (c *Compiler) isType(e ast.Expr) bool {
	tv, ok := c.info.Types[e]
	return ok && tv.IsType()
}

func (c *Compiler) commaOk(e ast.Expr) bool {
	t, ok := c.info.TypeOf(e).(*types.Tuple)
	return ok && t.Len() == 2
}

// expr pushes the value of e (one operand; a tuple for multi-value calls).
func (c *Compiler) expr(e ast.Expr) {
	if c.isType(e) {
		c.B.Typ(c.typExpr(e))
		return
	}
	switch e := e.(type) {
	case *ast.BasicLit:
		if e.Kind == token.CHAR {
			// a rune literal used where the context makes it a byte, uint16...: gogen's
			// template matching does not convert it; say the conversion explicitly
			if bt, ok := c.info.TypeOf(e).(*types.Basic); ok && bt.Kind() != types.UntypedRune && bt.Kind() != types.Int32 {
				c.B.Typ(bt)
				c.B.Val(&ast.BasicLit{Kind: e.Kind, Value: e.Value})
				c.B.Call(1, false)
				return
			}
		}
		c.B.Val(&ast.BasicLit{Kind: e.Kind, Value: e.Value})
	case *ast.Ident:
		if e.Name == "_" {
			unsupported("blank identifier as value")
		}
		if tv := c.info.Types[e]; tv.IsNil() {
			c.B.Val(nil)
			return
		}
		if k, ok := c.info.Uses[e].(*types.Const); ok && k.Pkg() == nil && (e.Name == "true" || e.Name == "false") {
			c.B.Val(e.Name == "true") // the predeclared constants as Go values, without a source node
			return
		}
		c.B.Val(c.refObj(e))
	case *ast.ParenExpr:
		c.expr(e.X)
	case *ast.FuncLit:
		c.funcLit(e)
	case *ast.CompositeLit:
		c.compositeLit(e, nil)
	case *ast.SelectorExpr:
		c.selector(e)
	case *ast.IndexExpr:
		if tv, ok := c.info.Types[e.X]; ok && tv.IsValue() {
			if _, isSig := tv.Type.Underlying().(*types.Signature); isSig {
				unsupported("explicit instantiation")
			}
		}
		c.expr(e.X)
		c.expr(e.Index)
		lhs := 0
		if c.commaOk(e) {
			lhs = 2
		}
		c.B.Index(1, lhs)
	case *ast.IndexListExpr:
		unsupported("index list")
	case *ast.SliceExpr:
		c.expr(e.X)
		for _, x := range []ast.Expr{e.Low, e.High} {
			if x == nil {
				c.B.None()
			} else {
				c.expr(x)
			}
		}
		if e.Slice3 {
			if e.Max == nil {
				c.B.None()
			} else {
				c.expr(e.Max)
			}
		}
		c.B.Slice(e.Slice3)
	case *ast.StarExpr:
		c.expr(e.X)
		c.B.Star()
	case *ast.TypeAssertExpr:
		if e.Type == nil {
			unsupported("type switch guard outside type switch")
		}
		c.expr(e.X)
		lhs := 0
		if c.commaOk(e) {
			lhs = 2
		}
		c.B.TypeAssert(c.typExpr(e.Type), lhs)
	case *ast.UnaryExpr:
		c.unary(e)
	case *ast.BinaryExpr:
		c.expr(e.X)
		c.expr(e.Y)
		c.B.BinaryOp(e.Op)
	case *ast.CallExpr:
		c.call(e)
	case *ast.KeyValueExpr:
		unsupported("key-value outside literal")
	default:
		unsupported("expression %T", e)
	}
}

func (c *Compiler) unary(e *ast.UnaryExpr) {
	switch e.Op {
	case token.AND:
		x := e.X
		for {
			p, ok := x.(*ast.ParenExpr)
			if !ok {
				break
			}
			x = p.X
		}
		if cl, ok := x.(*ast.CompositeLit); ok {
			c.compositeLit(cl, nil)
			c.B.UnaryOp(token.AND)
			return
		}
		c.ref(x)
		c.B.UnaryOp(token.AND)
	case token.ARROW:
		c.expr(e.X)
		if c.commaOk(e) {
			c.B.UnaryOpEx(token.ARROW, 2)
		} else {
			c.B.UnaryOp(token.ARROW)
		}
	default:
		c.expr(e.X)
		c.B.UnaryOp(e.Op)
	}
}

// ref pushes an addressable reference (left-hand side).
func (c *Compiler) ref(e ast.Expr) {
	switch e := e.(type) {
	case *ast.ParenExpr:
		c.ref(e.X)
	case *ast.Ident:
		if e.Name == "_" {
			c.B.VarRef(nil)
			return
		}
		c.B.VarRef(c.refObj(e))
	case *ast.SelectorExpr:
		if id, ok := e.X.(*ast.Ident); ok {
			if pn, ok := c.info.Uses[id].(*types.PkgName); ok {
				ref := c.importPkg(pn.Imported().Path()).Ref(e.Sel.Name)
				c.tagRef(pn.Imported().Path(), e.Sel.Name)
				c.B.VarRef(ref)
				return
			}
		}
		c.expr(e.X)
		c.B.MemberRef(e.Sel.Name)
	case *ast.IndexExpr:
		c.expr(e.X)
		c.expr(e.Index)
		c.B.IndexRef(1)
	case *ast.StarExpr:
		c.expr(e.X)
		c.B.ElemRef()
	default:
		unsupported("reference %T", e)
	}
}

func (c *Compiler) tagRef(path, name string) {
	f := ""
	if cf := c.Pkg.CurFile(); cf != nil {
		f = cf.Name()
	}
	c.RefTags = append(c.RefTags, RefTag{File: f, Path: path, Name: name})
}

// TagRef records a package-qualified reference built outside the compiler (injected constructs).
func (c *Compiler) TagRef(path, name string) { c.tagRef(path, name) }

func (c *Compiler) selector(e *ast.SelectorExpr) {
	if id, ok := e.X.(*ast.Ident); ok {
		if pn, ok := c.info.Uses[id].(*types.PkgName); ok {
			path := pn.Imported().Path()
			if path == "unsafe" || path == "C" {
				unsupported("package %s", path)
			}
			pr := c.importPkg(path)
			name := e.Sel.Name
			if base, ok := overloadBase(name); ok && pr.Types.Scope().Lookup("XGoPackage") != nil {
				// call through the overload family, as XGo source does; gogen resolves it
				if o := pr.TryRef(base); o != nil {
					c.Overloaded++
					c.tagRef(path, e.Sel.Name)
					c.B.Val(o)
					return
				}
			}
			ref := pr.Ref(name)
			c.tagRef(path, e.Sel.Name)
			c.B.Val(ref)
			return
		}
	}
	if sel := c.info.Selections[e]; sel != nil && sel.Kind() == types.MethodExpr {
		unsupported("method expression")
	}
	c.expr(e.X)
	if base, ok := overloadBase(e.Sel.Name); ok {
		if sel := c.info.Selections[e]; sel != nil && sel.Obj().Pkg() != nil && sel.Obj().Pkg() != c.src && sel.Obj().Pkg().Scope().Lookup("XGoPackage") != nil {
			c.importPkg(sel.Obj().Pkg().Path()) // makes gogen register the overload families
			if o, _, _ := types.LookupFieldOrMethod(sel.Recv(), true, sel.Obj().Pkg(), base); o != nil {
				c.Overloaded++
				c.B.MemberVal(base)
				return
			}
		}
	}
	c.B.MemberVal(e.Sel.Name)
}

func (c *Compiler) call(e *ast.CallExpr) {
	// conversion
	if c.isType(e.Fun) {
		if len(e.Args) != 1 {
			unsupported("conversion arity")
		}
		c.B.Typ(c.typExpr(e.Fun))
		c.expr(e.Args[0])
		c.B.Call(1, false)
		return
	}
	fun := e.Fun
	for {
		p, ok := fun.(*ast.ParenExpr)
		if !ok {
			break
		}
		fun = p.X
	}
	if id, ok := fun.(*ast.Ident); ok {
		if b, ok := c.info.Uses[id].(*types.Builtin); ok {
			c.builtinCall(b.Name(), e)
			return
		}
	}
	if sel, ok := fun.(*ast.SelectorExpr); ok {
		if id, ok := sel.X.(*ast.Ident); ok {
			if pn, ok := c.info.Uses[id].(*types.PkgName); ok && pn.Imported().Path() == "unsafe" {
				unsupported("unsafe call")
			}
		}
	}
	if tv, ok := c.info.Types[fun]; ok {
		if s, ok := tv.Type.Underlying().(*types.Signature); ok && s.TypeParams().Len() > 0 {
			unsupported("generic call")
		}
	}
	if inst, ok := c.info.Instances[identOf(fun)]; ok && inst.TypeArgs.Len() > 0 {
		unsupported("instantiated call")
	}
	lhs := c.wantLHS
	c.wantLHS = 0
	c.expr(fun)
	for _, a := range e.Args {
		c.expr(a)
		if c.opts.InjectExpr != nil {
			c.opts.InjectExpr(c, c.curUnit)
		}
	}
	if lhs >= 2 {
		c.B.CallLHS(len(e.Args), lhs, e.Ellipsis.IsValid())
	} else {
		c.B.Call(len(e.Args), e.Ellipsis.IsValid())
	}
}

func identOf(e ast.Expr) *ast.Ident {
	switch e := e.(type) {
	case *ast.Ident:
		return e
	case *ast.SelectorExpr:
		return e.Sel
	}
	return nil
}

func (c *Compiler) builtinCall(name string, e *ast.CallExpr) {
	o := c.lookup(name)
	if o == nil {
		unsupported("builtin %s", name)
	}
	switch name {
	case "make", "new":
		c.B.Val(o)
		c.B.Typ(c.typExpr(e.Args[0]))
		for _, a := range e.Args[1:] {
			c.expr(a)
		}
		c.B.Call(len(e.Args), false)
	case "len", "cap", "append", "copy", "delete", "panic", "recover", "print", "println", "close", "complex", "real", "imag", "min", "max", "clear":
		c.B.Val(o)
		for _, a := range e.Args {
			c.expr(a)
		}
		c.B.Call(len(e.Args), e.Ellipsis.IsValid())
	default:
		unsupported("builtin %s", name)
	}
}

func (c *Compiler) funcLit(e *ast.FuncLit) {
	sig, ok := c.info.TypeOf(e).(*types.Signature)
	if !ok {
		unsupported("func literal type")
	}
	g := c.sig(sig, nil)
	var fn *gogen.Func
	if g.Params().Len() == 0 && g.Results().Len() == 0 {
		// every `func()` literal of the package is created from one signature object, as a
		// front end that keeps common signatures around does; such literals nest
		if c.voidSig == nil {
			c.voidSig = types.NewSignatureType(nil, nil, nil, nil, nil, false)
		}
		fn = c.B.NewClosureWith(c.voidSig)
	} else {
		fn = c.B.NewClosure(g.Params(), g.Results(), g.Variadic())
	}
	c.B.ClosureBodyStart(fn, c.Pkg)
	c.funcBody(e.Body, c.curUnit)
	c.B.End()
}

// compositeLit builds a literal; typ overrides the literal's type for elided inner literals.
func (c *Compiler) compositeLit(e *ast.CompositeLit, _ types.Type) {
	st := c.info.TypeOf(e)
	if st == nil {
		unsupported("untyped composite literal")
	}
	ptr := false
	if p, ok := st.Underlying().(*types.Pointer); ok && e.Type == nil {
		st = p.Elem() // &T elided inside []*T{{...}}
		ptr = true
	}
	t := c.typ(st)
	elt := func(x ast.Expr) {
		if cl, ok := x.(*ast.CompositeLit); ok {
			c.compositeLit(cl, nil)
			return
		}
		c.expr(x)
	}
	switch u := st.Underlying().(type) {
	case *types.Struct:
		keyed := len(e.Elts) > 0
		for _, x := range e.Elts {
			if _, ok := x.(*ast.KeyValueExpr); !ok {
				keyed = false
			}
		}
		if keyed {
			for _, x := range e.Elts {
				kv := x.(*ast.KeyValueExpr)
				name := kv.Key.(*ast.Ident).Name
				idx := -1
				for i := 0; i < u.NumFields(); i++ {
					if u.Field(i).Name() == name {
						idx = i
					}
				}
				if idx < 0 {
					unsupported("field %s", name)
				}
				c.B.Val(idx)
				elt(kv.Value)
			}
			c.B.StructLit(t, 2*len(e.Elts), true)
		} else {
			for _, x := range e.Elts {
				elt(x)
			}
			c.B.StructLit(t, len(e.Elts), false)
		}
	case *types.Slice, *types.Array:
		keyed := false
		for _, x := range e.Elts {
			if _, ok := x.(*ast.KeyValueExpr); ok {
				keyed = true
			}
		}
		n := 0
		if keyed {
			for _, x := range e.Elts {
				kv, ok := x.(*ast.KeyValueExpr)
				if !ok {
					unsupported("mixed keyed array literal")
				}
				c.expr(kv.Key)
				elt(kv.Value)
				n += 2
			}
		} else {
			for _, x := range e.Elts {
				elt(x)
				n++
			}
		}
		if _, ok := u.(*types.Slice); ok {
			c.B.SliceLit(t, n, keyed)
		} else {
			c.B.ArrayLit(t, n, keyed)
		}
	case *types.Map:
		for _, x := range e.Elts {
			kv, ok := x.(*ast.KeyValueExpr)
			if !ok {
				unsupported("map literal element")
			}
			elt(kv.Key)
			elt(kv.Value)
		}
		c.B.MapLit(t, 2*len(e.Elts))
	default:
		unsupported("composite literal of %T", u)
	}
	if ptr {
		c.B.UnaryOp(token.AND)
	}
}

// overloadBase splits Name__N into Name (XGo's naming of overload candidates).
func overloadBase(name string) (string, bool) {
	n := len(name)
	if n > 3 && name[n-3] == '_' && name[n-2] == '_' && (name[n-1] >= '0' && name[n-1] <= '9' || name[n-1] >= 'a' && name[n-1] <= 'z') {
		return name[:n-3], true
	}
	return "", false
}
