package minicl

import (
	"go/ast"
	"go/token"
	"go/types"
)

// Analyse decides, before any builder operation is issued, which declaration units lie
// inside the supported subset, so that Unsupported is never raised in the middle of a
// construct. A unit that references an unsupported unit is unsupported too (fixpoint).
// Function bodies are judged separately: a function with a supported signature and an
// unsupported body is declared without a body.
func (c *Compiler) Analyse() (declared, bodies, total int) {
	n := len(c.syms)
	declOK := make([]bool, n)
	bodyOK := make([]bool, n)
	declRefs := make([][]*Sym, n)
	bodyRefs := make([][]*Sym, n)
	for i, s := range c.syms {
		declOK[i], bodyOK[i] = true, true
		var declNodes []ast.Node
		var bodyNode ast.Node
		switch s.Kind {
		case symType:
			declNodes = []ast.Node{s.typeSpec}
		case symVar:
			declNodes = []ast.Node{s.valSpec}
		case symConst:
			declNodes = []ast.Node{s.genDecl}
			// a constant may refer to one declared later in the same block; the front end
			// declares a block top-down, so such blocks are outside the subset
			later := map[types.Object]bool{}
			for _, o := range s.Objs {
				later[o] = true
			}
			for _, sp := range s.genDecl.Specs {
				vs := sp.(*ast.ValueSpec)
				for _, v := range vs.Values {
					ast.Inspect(v, func(n ast.Node) bool {
						if id, ok := n.(*ast.Ident); ok && later[c.info.Uses[id]] {
							declOK[i] = false
						}
						return true
					})
				}
				for _, n := range vs.Names {
					delete(later, c.info.Defs[n])
				}
			}
		case symFunc, symMethod:
			declNodes = []ast.Node{s.funcDecl.Type}
			if s.funcDecl.Recv != nil {
				declNodes = append(declNodes, s.funcDecl.Recv)
			}
			if s.funcDecl.Body != nil {
				bodyNode = s.funcDecl.Body
			}
			if s.funcDecl.Name.Name == "_" {
				declOK[i] = false
			}
		}
		if len(s.Objs) == 0 && s.Kind != symFunc {
			declOK[i] = false
		}
		if c.opts.DropUnits[s.Key()] {
			declOK[i] = false
		}
		if c.opts.DropBodies[s.Key()] {
			bodyOK[i] = false
		}
		for _, dn := range declNodes {
			ok, refs := c.scan(dn)
			if !ok {
				declOK[i] = false
			}
			declRefs[i] = append(declRefs[i], refs...)
		}
		if bodyNode != nil {
			ok, refs := c.scan(bodyNode)
			bodyOK[i] = ok
			bodyRefs[i] = refs
		}
	}
	idx := map[*Sym]int{}
	for i, s := range c.syms {
		idx[s] = i
	}
	// a type is only as good as its methods' signatures; a method needs its type
	for changed := true; changed; {
		changed = false
		for i, s := range c.syms {
			if declOK[i] {
				for _, r := range declRefs[i] {
					if !declOK[idx[r]] {
						declOK[i] = false
						changed = true
						break
					}
				}
			}
			if declOK[i] && s.Kind == symType {
				if nt, ok := s.Objs[0].Type().(*types.Named); ok {
					for k := 0; k < nt.NumMethods(); k++ {
						if ms := c.byObj[nt.Method(k)]; ms != nil && !declOK[idx[ms]] {
							declOK[i] = false
							changed = true
						}
					}
				}
			}
			if declOK[i] && s.Kind == symMethod && len(s.Objs) == 1 {
				if r := s.Objs[0].Type().(*types.Signature).Recv(); r != nil {
					rt := r.Type()
					if p, ok := rt.(*types.Pointer); ok {
						rt = p.Elem()
					}
					if nt, ok := types.Unalias(rt).(*types.Named); ok {
						if ts := c.byObj[nt.Obj()]; ts != nil && !declOK[idx[ts]] {
							declOK[i] = false
							changed = true
						}
					}
				}
			}
			if bodyOK[i] {
				for _, r := range bodyRefs[i] {
					if !declOK[idx[r]] {
						bodyOK[i] = false
						changed = true
						break
					}
				}
			}
		}
	}
	for i, s := range c.syms {
		total++
		if !declOK[i] {
			s.Failed = Unsupported{"outside the subset (static analysis)"}
			continue
		}
		declared++
		if (s.Kind == symFunc || s.Kind == symMethod) && s.funcDecl.Body != nil {
			if bodyOK[i] {
				bodies++
			} else {
				// keep the declaration, replace the body by a panic
				s.stubBody = true
			}
		}
	}
	return
}

// scan reports whether a syntax tree stays inside the subset and which package-level
// units it references.
func (c *Compiler) scan(root ast.Node) (ok bool, refs []*Sym) {
	ok = true
	seen := map[*Sym]bool{}
	bad := func() { ok = false }
	ast.Inspect(root, func(n ast.Node) bool {
		switch n := n.(type) {
		case *ast.Ident:
			obj := c.info.Uses[n]
			if obj == nil {
				return true
			}
			if s := c.byObj[obj]; s != nil && !seen[s] {
				seen[s] = true
				refs = append(refs, s)
			}
			switch o := obj.(type) {
			case *types.TypeName:
				if _, isTP := o.Type().(*types.TypeParam); isTP {
					bad()
				}
				if nt, isN := o.Type().(*types.Named); isN && nt.TypeParams().Len() > 0 {
					bad()
				}
			case *types.PkgName:
				if p := o.Imported().Path(); p == "unsafe" || p == "C" {
					bad()
				}
			case *types.Func:
				if sig, _ := o.Type().(*types.Signature); sig != nil && (sig.TypeParams().Len() > 0 || sig.RecvTypeParams().Len() > 0) {
					bad()
				}
			case *types.Builtin:
				switch o.Name() {
				case "make", "new", "len", "cap", "append", "copy", "delete", "panic", "recover", "print", "println", "close", "complex", "real", "imag", "min", "max", "clear":
				default:
					bad()
				}
			}
			if _, inst := c.info.Instances[n]; inst {
				bad()
			}
		case *ast.IndexListExpr:
			bad()
		case *ast.FuncType:
			if n.TypeParams != nil {
				bad()
			}
		case *ast.TypeSpec:
			if n.TypeParams != nil {
				bad()
			}
		case *ast.SelectorExpr:
			if sel := c.info.Selections[n]; sel != nil && sel.Kind() == types.MethodExpr {
				bad()
			}
		case *ast.Ellipsis:
			// [...]T{...} is fine (the checked type is concrete)
		case *ast.AssignStmt:
			if n.Tok == token.DEFINE {
				for _, l := range n.Lhs {
					if _, isID := l.(*ast.Ident); !isID {
						bad()
					}
				}
			}
		case *ast.CompositeLit:
			t := c.info.TypeOf(n)
			if t == nil {
				bad()
				return true
			}
			u := t.Underlying()
			if p, isP := u.(*types.Pointer); isP && n.Type == nil {
				u = p.Elem().Underlying()
			}
			switch u.(type) {
			case *types.Struct:
				keyed, pos := 0, 0
				for _, x := range n.Elts {
					if _, isKV := x.(*ast.KeyValueExpr); isKV {
						keyed++
					} else {
						pos++
					}
				}
				if keyed > 0 && pos > 0 {
					bad()
				}
			case *types.Slice, *types.Array:
				keyed, pos := 0, 0
				for _, x := range n.Elts {
					if _, isKV := x.(*ast.KeyValueExpr); isKV {
						keyed++
					} else {
						pos++
					}
				}
				if keyed > 0 && pos > 0 {
					bad()
				}
			case *types.Map:
			default:
				bad()
			}
		case *ast.UnaryExpr:
			if n.Op == token.TILDE {
				bad()
			}
		case *ast.InterfaceType:
			for _, f := range n.Methods.List {
				if len(f.Names) == 0 {
					if t := c.info.TypeOf(f.Type); t != nil {
						if _, isU := types.Unalias(t).(*types.Union); isU {
							bad()
						}
						if _, isI := t.Underlying().(*types.Interface); !isI {
							bad()
						}
					}
				}
			}
		case *ast.RangeStmt:
			if n.Tok == token.DEFINE {
				for _, x := range []ast.Expr{n.Key, n.Value} {
					if x != nil {
						if _, isID := x.(*ast.Ident); !isID {
							bad()
						}
					}
				}
			}
		case *ast.LabeledStmt, *ast.BranchStmt:
		}
		return true
	})
	return
}
