package minicl

import (
	"fmt"
	"go/ast"
	"go/token"
	"go/types"
	"sort"

	"github.com/goplus/gogen"
)

// Unsupported is panicked (and recovered per declaration) when the subset is exceeded.
type Unsupported struct{ What string }

func (u Unsupported) Error() string { return "minicl: unsupported: " + u.What }

func unsupported(format string, a ...any) {
	panic(Unsupported{fmt.Sprintf(format, a...)})
}

// File is one parsed source file.
type File struct {
	Name string
	AST  *ast.File
}

type symKind int

const (
	symType symKind = iota
	symVar
	symConst
	symFunc
	symMethod
)

const (
	stNone = iota
	stDeclaring
	stDeclared
	stBodyDone
)

// Sym is one package-level declaration unit.
type Sym struct {
	Name  string
	Kind  symKind
	File  string
	Objs  []types.Object // objects this unit declares (several for var a, b = ... and const blocks)
	state int

	typeSpec *ast.TypeSpec
	valSpec  *ast.ValueSpec
	genDecl  *ast.GenDecl // const block
	funcDecl *ast.FuncDecl

	fn       *gogen.Func
	tdecl    *gogen.TypeDecl
	lazy     bool // underlying supplied from LoadNamed
	stubBody bool // body outside the subset: replaced by panic("...")
	Failed   error
}

// Options is the front-end schedule and configuration of one compilation.
type Options struct {
	PkgPath, PkgName string
	Conf             *gogen.Config // Importer, Fset, HandleErr... LoadNamed is set by minicl
	Hooks            *Hooks
	// Eager lists, in order, the units (indices into Syms()) declared up front; all others
	// are declared on demand when first referenced, or at the end.
	Eager []int
	// Lazy marks named types whose underlying type is supplied from the LoadNamed callback.
	Lazy map[int]bool
	// BodyOrder is the order in which function bodies are compiled (indices into Syms()
	// restricted to functions and methods); units not listed follow in source order.
	BodyOrder []int
	// BodiesEarly compiles a function body right after an eager declaration of it.
	BodiesEarly bool
	// DropUnits / DropBodies (keys from Sym.Key) are excluded by the corpus dry run.
	DropUnits, DropBodies map[string]bool
	// ImportAtStart issues Import for every import of a file when the file is first made current.
	ImportAtStart bool
	// ForceImports lists import paths to force-import into the first file.
	ForceImports []string
	// Inject is called before each statement of a function body with (unit index,
	// statement ordinal in that body); it may issue extra builder operations (faults).
	Inject func(c *Compiler, unit, stmt int, depth int)
	// CompleteEarly closes the grouped type declarations opened so far right after the
	// eager phase, while lazily loaded members are still without a type (gogen then drops
	// those specs from the block; InitType arrives later from LoadNamed).
	CompleteEarly bool
	// AfterBody is called after each function body has been compiled.
	AfterBody func(c *Compiler)
	// InjectExpr is called after an operand of a call has been pushed.
	InjectExpr func(c *Compiler, unit int)
}

// Compiler drives one gogen.Package.
type Compiler struct {
	Pkg   *gogen.Package
	B     *B
	opts  *Options
	fset  *token.FileSet
	files []*File
	info  *types.Info
	src   *types.Package

	syms          []*Sym
	byObj         map[types.Object]*Sym
	named         map[*types.Named]*types.Named // source named type -> gogen named type
	localTN       map[*types.TypeName]types.Type
	imports       map[string]gogen.PkgRef
	labels        map[string]*gogen.Label
	curUnit       int
	Depth         int // nesting depth of re-entrant front-end actions
	MaxDepthStack int // operand stack length seen when a nested action started (probe)
	LazyFired     int
	OnDemand      int
	NestedInExpr  int
	RefTags       []RefTag
	voidSig       *types.Signature // the one signature object all `func()` literals are created from
	wantLHS       int              // values expected from the call that is the single right-hand side of the statement being compiled
	stmtDepth     int
	lastPos       token.Pos
	declStack     []*Sym
	typeGroups    map[*ast.GenDecl]*gogen.TypeDefs
	groupOrder    []*gogen.TypeDefs
	Overloaded    int    // calls issued through an overload family
	MidAbort      string // set when the subset was exceeded after operations had been issued
}

// RefTag records a package-qualified reference the front end built: for C09.
type RefTag struct {
	File, Path, Name string
	Discarded        bool
}

// New parses nothing: files must already be parsed and checked (info, src).
func New(fset *token.FileSet, files []*File, src *types.Package, info *types.Info, opts *Options) *Compiler {
	c := &Compiler{opts: opts, fset: fset, files: files, info: info, src: src,
		byObj: map[types.Object]*Sym{}, named: map[*types.Named]*types.Named{}, localTN: map[*types.TypeName]types.Type{},
		imports: map[string]gogen.PkgRef{}}
	c.collect()
	return c
}

// Key identifies a unit across compilations of the same source.
func (s *Sym) Key() string {
	k := s.File + ":" + s.Name
	if s.Kind == symMethod && s.funcDecl.Recv != nil && len(s.funcDecl.Recv.List) > 0 {
		k = s.File + ":" + types.ExprString(s.funcDecl.Recv.List[0].Type) + "." + s.Name
	}
	return k
}

// Group identifies the grouped declaration (type ( ... )) a type unit belongs to, nil if
// none. All members of a group must live in one file.
func (s *Sym) Group() any {
	if s.Kind == symType && s.genDecl != nil {
		return s.genDecl
	}
	return nil
}

// CurUnit returns the unit being compiled (for diagnostics of a dry run).
func (c *Compiler) CurUnit() *Sym {
	if c.curUnit >= 0 && c.curUnit < len(c.syms) {
		return c.syms[c.curUnit]
	}
	return nil
}

// InBody reports whether a function body is being compiled.
func (c *Compiler) InBody() bool { return c.stmtDepth > 0 }

// Declaring returns the innermost unit whose declaration is in progress, if any.
func (c *Compiler) Declaring() *Sym {
	for i := len(c.declStack) - 1; i >= 0; i-- {
		return c.declStack[i]
	}
	return nil
}

// Syms returns the declaration units in source order.
func (c *Compiler) Syms() []*Sym { return c.syms }

func (c *Compiler) collect() {
	for _, f := range c.files {
		for _, d := range f.AST.Decls {
			switch d := d.(type) {
			case *ast.GenDecl:
				switch d.Tok {
				case token.TYPE:
					for _, s := range d.Specs {
						ts := s.(*ast.TypeSpec)
						obj := c.info.Defs[ts.Name]
						if obj == nil {
							continue
						}
						sy := &Sym{Name: ts.Name.Name, Kind: symType, File: f.Name, Objs: []types.Object{obj}, typeSpec: ts}
						if d.Lparen.IsValid() && len(d.Specs) > 1 {
							sy.genDecl = d // a member of a grouped declaration: type ( ... )
						}
						c.addSym(sy)
					}
				case token.VAR:
					for _, s := range d.Specs {
						vs := s.(*ast.ValueSpec)
						sy := &Sym{Name: vs.Names[0].Name, Kind: symVar, File: f.Name, valSpec: vs}
						for _, n := range vs.Names {
							if obj := c.info.Defs[n]; obj != nil {
								sy.Objs = append(sy.Objs, obj)
							}
						}
						c.addSym(sy)
					}
				case token.CONST:
					sy := &Sym{Kind: symConst, File: f.Name, genDecl: d}
					for _, s := range d.Specs {
						for _, n := range s.(*ast.ValueSpec).Names {
							if sy.Name == "" {
								sy.Name = n.Name
							}
							if obj := c.info.Defs[n]; obj != nil {
								sy.Objs = append(sy.Objs, obj)
							}
						}
					}
					c.addSym(sy)
				}
			case *ast.FuncDecl:
				obj := c.info.Defs[d.Name]
				sy := &Sym{Name: d.Name.Name, Kind: symFunc, File: f.Name, funcDecl: d}
				if obj != nil {
					sy.Objs = []types.Object{obj}
				}
				if d.Recv != nil {
					sy.Kind = symMethod
				}
				c.addSym(sy)
			}
		}
	}
}

func (c *Compiler) addSym(s *Sym) {
	c.syms = append(c.syms, s)
	for _, o := range s.Objs {
		c.byObj[o] = s
	}
}

// ---------------------------------------------------------------------------

// Run performs the whole compilation under the schedule of the options.
func (c *Compiler) Run() (err error) {
	conf := *c.opts.Conf
	conf.LoadNamed = c.loadNamed
	if conf.DefaultGoFile == "" && len(c.files) > 0 {
		conf.DefaultGoFile = c.files[0].Name
	}
	c.Pkg = gogen.NewPackage(c.opts.PkgPath, c.opts.PkgName, &conf)
	c.B = &B{cb: c.Pkg.CB(), h: c.opts.Hooks}
	if len(c.files) > 0 {
		c.Pkg.SetCurFile(c.files[0].Name, true)
		for _, p := range c.opts.ForceImports {
			c.Pkg.ForceImport(p)
		}
	}
	if c.opts.ImportAtStart {
		for _, f := range c.files {
			old, _ := c.Pkg.SetCurFile(f.Name, true)
			for _, im := range f.AST.Imports {
				if pn, ok := c.info.Implicits[im].(*types.PkgName); ok {
					c.importPkg(pn.Imported().Path())
				} else if im.Name != nil {
					if pn, ok := c.info.Defs[im.Name].(*types.PkgName); ok {
						c.importPkg(pn.Imported().Path())
					}
				}
			}
			c.Pkg.RestoreCurFile(old)
		}
	}
	for i, s := range c.syms {
		if c.opts.Lazy[i] && s.Kind == symType {
			s.lazy = true
		}
	}
	// eager declarations, in the scheduled order
	for _, i := range c.opts.Eager {
		if i < 0 || i >= len(c.syms) {
			continue
		}
		s := c.syms[i]
		c.ensure(s)
		if c.opts.BodiesEarly && (s.Kind == symFunc || s.Kind == symMethod) {
			c.body(i)
		}
	}
	if c.opts.CompleteEarly {
		for _, defs := range c.groupOrder {
			defs.Complete()
		}
	}
	// bodies, in the scheduled order; they pull in everything else on demand
	done := map[int]bool{}
	for _, i := range c.opts.BodyOrder {
		if i >= 0 && i < len(c.syms) && !done[i] {
			done[i] = true
			c.body(i)
		}
	}
	for i := range c.syms {
		if !done[i] {
			c.body(i)
		}
	}
	// whatever nothing referenced
	for _, s := range c.syms {
		c.ensure(s)
	}
	// complete lazily loaded types nobody looked into (before the grouped declarations
	// are closed: Complete drops specs that never got a type)
	for _, s := range c.syms {
		if s.Kind == symType && s.lazy && s.tdecl != nil && s.Failed == nil && !s.tdecl.Inited() {
			c.completeType(s)
		}
	}
	for _, defs := range c.groupOrder {
		defs.Complete()
	}
	return nil
}

// withFile makes the unit's file current for the duration of f.
func (c *Compiler) withFile(file string, f func()) {
	cur := c.Pkg.CurFile()
	if cur != nil && cur.Name() == file {
		f()
		return
	}
	old, err := c.Pkg.SetCurFile(file, true)
	if err != nil {
		panic(err)
	}
	defer c.Pkg.RestoreCurFile(old)
	f()
}

func (c *Compiler) enter(what, name string) {
	c.Depth++
	if n := c.Pkg.CB().InternalStack().Len(); n > 0 {
		c.NestedInExpr++
		if n > c.MaxDepthStack {
			c.MaxDepthStack = n
		}
	}
	if h := c.opts.Hooks; h != nil && h.Enter != nil {
		h.Enter(what, name)
	}
}

func (c *Compiler) leave(what, name string) {
	if h := c.opts.Hooks; h != nil && h.Leave != nil {
		h.Leave(what, name)
	}
	c.Depth--
}

// ensure declares a unit if it is not declared yet (on-demand loading).
func (c *Compiler) ensure(s *Sym) {
	if s.state != stNone || s.Failed != nil {
		return
	}
	s.state = stDeclaring
	c.declStack = append(c.declStack, s)
	defer func() { c.declStack = c.declStack[:len(c.declStack)-1] }()
	nested := c.stmtDepth > 0 || c.Depth > 0
	if nested {
		c.OnDemand++
		c.enter("declare", s.Name)
		defer c.leave("declare", s.Name)
	}
	func() {
		defer func() {
			if r := recover(); r != nil {
				if u, ok := r.(Unsupported); ok {
					s.Failed = u
					// the static analysis should have excluded this unit: the builder may
					// now be in the middle of a construct
					c.MidAbort = s.Name + ": " + u.What
					return
				}
				panic(r)
			}
		}()
		c.withFile(s.File, func() {
			switch s.Kind {
			case symType:
				c.declType(s)
			case symVar:
				c.declVar(s)
			case symConst:
				c.declConst(s)
			case symFunc, symMethod:
				c.declFunc(s)
			}
		})
	}()
	if s.state == stDeclaring {
		s.state = stDeclared
	}
}

func (c *Compiler) importPkg(path string) gogen.PkgRef {
	if r, ok := c.imports[path]; ok {
		return r
	}
	r := c.Pkg.Import(path)
	c.imports[path] = r
	return r
}

// SortedSymIndex returns indices of units whose kind satisfies pred, ascending.
func (c *Compiler) SortedSymIndex(pred func(*Sym) bool) []int {
	var out []int
	for i, s := range c.syms {
		if pred(s) {
			out = append(out, i)
		}
	}
	sort.Ints(out)
	return out
}

func IsFuncSym(s *Sym) bool { return s.Kind == symFunc || s.Kind == symMethod }
func IsTypeSym(s *Sym) bool { return s.Kind == symType }
