package minicl

import (
	"go/ast"
	"go/token"
	"go/types"
)

// typ translates a type of the checked source into the type universe of the package
// being generated: package-level named types map to the gogen declarations (declaring them
// on demand), everything structural is rebuilt.
func (c *Compiler) typ(t types.Type) types.Type {
	switch t := t.(type) {
	case nil:
		return nil
	case *types.Basic:
		return t
	case *types.Alias:
		return c.typ(types.Unalias(t))
	case *types.Named:
		obj := t.Obj()
		if obj.Pkg() == nil || obj.Pkg() != c.src {
			if t.TypeArgs().Len() > 0 {
				unsupported("instantiated type %v", t)
			}
			return t // universe (error) or imported: shared with the importer of this task
		}
		if t.TypeArgs().Len() > 0 || t.TypeParams().Len() > 0 {
			unsupported("generic type %v", t)
		}
		if lt, ok := c.localTN[obj]; ok {
			return lt
		}
		if s := c.byObj[obj]; s != nil {
			c.ensure(s)
			if s.Failed != nil {
				panic(s.Failed.(Unsupported))
			}
			if g := c.named[t]; g != nil {
				return g
			}
		}
		unsupported("named type %v not declared", t)
	case *types.Pointer:
		return types.NewPointer(c.typ(t.Elem()))
	case *types.Slice:
		return types.NewSlice(c.typ(t.Elem()))
	case *types.Array:
		return types.NewArray(c.typ(t.Elem()), t.Len())
	case *types.Map:
		return types.NewMap(c.typ(t.Key()), c.typ(t.Elem()))
	case *types.Chan:
		return types.NewChan(t.Dir(), c.typ(t.Elem()))
	case *types.Signature:
		return c.sig(t, nil)
	case *types.Tuple:
		return c.tuple(t)
	case *types.Struct:
		fields := make([]*types.Var, t.NumFields())
		tags := make([]string, t.NumFields())
		for i := range fields {
			f := t.Field(i)
			fields[i] = types.NewField(token.NoPos, c.outPkg(f.Pkg()), f.Name(), c.typ(f.Type()), f.Embedded())
			tags[i] = t.Tag(i)
		}
		return types.NewStruct(fields, tags)
	case *types.Interface:
		var methods []*types.Func
		for i := 0; i < t.NumExplicitMethods(); i++ {
			m := t.ExplicitMethod(i)
			methods = append(methods, types.NewFunc(token.NoPos, c.outPkg(m.Pkg()), m.Name(), c.sig(m.Type().(*types.Signature), nil)))
		}
		var emb []types.Type
		for i := 0; i < t.NumEmbeddeds(); i++ {
			e := t.EmbeddedType(i)
			if _, ok := types.Unalias(e).(*types.Union); ok {
				unsupported("union in interface")
			}
			emb = append(emb, c.typ(e))
		}
		return types.NewInterfaceType(methods, emb).Complete()
	case *types.TypeParam:
		unsupported("type parameter")
	case *types.Union:
		unsupported("union")
	}
	unsupported("type %T", t)
	return nil
}

func (c *Compiler) outPkg(p *types.Package) *types.Package {
	if p == c.src {
		return c.Pkg.Types
	}
	return p
}

func (c *Compiler) tuple(t *types.Tuple) *types.Tuple {
	if t == nil || t.Len() == 0 {
		return nil
	}
	vars := make([]*types.Var, t.Len())
	for i := range vars {
		v := t.At(i)
		vars[i] = c.Pkg.NewParam(token.NoPos, v.Name(), c.typ(v.Type()), false)
	}
	return types.NewTuple(vars...)
}

func (c *Compiler) sig(s *types.Signature, recv *types.Var) *types.Signature {
	if s.TypeParams().Len() > 0 || s.RecvTypeParams().Len() > 0 {
		unsupported("generic signature")
	}
	return types.NewSignatureType(recv, nil, nil, c.tuple(s.Params()), c.tuple(s.Results()), s.Variadic())
}

// typExpr translates a type expression of the source.
func (c *Compiler) typExpr(e ast.Expr) types.Type {
	tv, ok := c.info.Types[e]
	if !ok || !tv.IsType() {
		unsupported("not a type expression")
	}
	return c.typ(tv.Type)
}
