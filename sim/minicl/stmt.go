package minicl

import (
	"go/ast"
	"go/token"
	"go/types"

	"github.com/goplus/gogen"
)

func (c *Compiler) stmts(list []ast.Stmt) {
	for i, s := range list {
		if c.opts.Inject != nil {
			c.opts.Inject(c, c.curUnit, i, c.stmtDepth)
		}
		c.stmt(s)
	}
}

func (c *Compiler) label(id *ast.Ident) *gogen.Label {
	if id == nil {
		return nil
	}
	l := c.labels[id.Name]
	if l == nil {
		unsupported("label %s", id.Name)
	}
	return l
}

func (c *Compiler) simpleStmt(s ast.Stmt) {
	if s == nil {
		return
	}
	c.stmt(s)
}

func (c *Compiler) stmt(s ast.Stmt) {
	c.lastPos = s.Pos()
	switch s := s.(type) {
	case *ast.EmptyStmt:
	case *ast.ExprStmt:
		c.expr(s.X)
		c.B.EndStmt()
	case *ast.SendStmt:
		c.expr(s.Chan)
		c.expr(s.Value)
		c.B.Send()
	case *ast.IncDecStmt:
		c.ref(s.X)
		c.B.IncDec(s.Tok)
	case *ast.AssignStmt:
		c.assign(s)
	case *ast.GoStmt:
		c.call(s.Call)
		c.B.Go()
	case *ast.DeferStmt:
		c.call(s.Call)
		c.B.Defer()
	case *ast.ReturnStmt:
		for _, r := range s.Results {
			c.expr(r)
		}
		c.B.Return(len(s.Results))
	case *ast.BranchStmt:
		switch s.Tok {
		case token.BREAK:
			c.B.Break(c.label(s.Label))
		case token.CONTINUE:
			c.B.Continue(c.label(s.Label))
		case token.GOTO:
			c.B.Goto(c.label(s.Label))
		case token.FALLTHROUGH:
			c.B.Fallthrough()
		}
	case *ast.BlockStmt:
		c.B.Block()
		c.block(s)
		c.B.End()
	case *ast.LabeledStmt:
		c.B.Label(c.label(s.Label))
		c.stmt(s.Stmt)
	case *ast.IfStmt:
		c.ifStmt(s)
	case *ast.ForStmt:
		c.B.For()
		c.simpleStmt(s.Init)
		if s.Cond != nil {
			c.expr(s.Cond)
		} else {
			c.B.None()
		}
		c.B.Then()
		c.block(s.Body)
		if s.Post != nil {
			c.B.Post()
			c.stmt(s.Post)
		}
		c.B.End()
	case *ast.RangeStmt:
		c.rangeStmt(s)
	case *ast.SwitchStmt:
		c.B.Switch()
		c.simpleStmt(s.Init)
		if s.Tag != nil {
			c.expr(s.Tag)
		} else {
			c.B.None()
		}
		c.B.Then()
		for _, cc := range s.Body.List {
			cl := cc.(*ast.CaseClause)
			if cl.List == nil {
				c.B.DefaultThen()
			} else {
				c.B.Case()
				for _, x := range cl.List {
					c.expr(x)
				}
				c.B.Then()
			}
			c.caseBody(cl.Body)
			c.B.End()
		}
		c.B.End()
	case *ast.TypeSwitchStmt:
		c.typeSwitch(s)
	case *ast.SelectStmt:
		c.B.Select()
		for _, cc := range s.Body.List {
			cl := cc.(*ast.CommClause)
			if cl.Comm == nil {
				c.B.CommDefaultThen()
			} else {
				c.B.CommCase()
				c.stmt(cl.Comm)
				c.B.Then()
			}
			c.caseBody(cl.Body)
			c.B.End()
		}
		c.B.End()
	case *ast.DeclStmt:
		c.declStmt(s.Decl.(*ast.GenDecl))
	default:
		unsupported("statement %T", s)
	}
}

func (c *Compiler) block(b *ast.BlockStmt) {
	c.stmtDepth++
	c.stmts(b.List)
	c.stmtDepth--
}

func (c *Compiler) caseBody(list []ast.Stmt) {
	c.stmtDepth++
	c.stmts(list)
	c.stmtDepth--
}

func (c *Compiler) ifStmt(s *ast.IfStmt) {
	c.B.If()
	c.simpleStmt(s.Init)
	c.expr(s.Cond)
	c.B.Then()
	c.block(s.Body)
	if s.Else != nil {
		c.B.Else()
		switch e := s.Else.(type) {
		case *ast.IfStmt:
			c.ifStmt(e)
		case *ast.BlockStmt:
			c.block(e)
		}
	}
	c.B.End()
}

// expectValues tells the call that is the single right-hand side of `a, b = f(x)` how many
// values the statement expects, as XGo's front end does (it decides between the members of an
// overload family with equal parameters and different result counts).
func (c *Compiler) expectValues(s *ast.AssignStmt) {
	c.wantLHS = 0
	if len(s.Lhs) >= 2 && len(s.Rhs) == 1 {
		if _, ok := s.Rhs[0].(*ast.CallExpr); ok {
			c.wantLHS = len(s.Lhs)
		}
	}
}

func (c *Compiler) assign(s *ast.AssignStmt) {
	switch s.Tok {
	case token.DEFINE:
		names := make([]string, len(s.Lhs))
		for i, l := range s.Lhs {
			id, ok := l.(*ast.Ident)
			if !ok {
				unsupported("non-identifier in :=")
			}
			names[i] = id.Name
		}
		c.B.DefineVarStart(token.NoPos, names...)
		c.expectValues(s)
		for _, r := range s.Rhs {
			c.expr(r)
		}
		c.B.EndInit(len(s.Rhs))
	case token.ASSIGN:
		for _, l := range s.Lhs {
			c.ref(l)
		}
		c.expectValues(s)
		for _, r := range s.Rhs {
			c.expr(r)
		}
		c.B.Assign(len(s.Lhs), len(s.Rhs))
		c.B.EndStmt()
	default: // op=
		c.ref(s.Lhs[0])
		c.expr(s.Rhs[0])
		c.B.AssignOp(s.Tok)
	}
}

func (c *Compiler) rangeStmt(s *ast.RangeStmt) {
	if s.Tok == token.DEFINE {
		var names []string
		for _, x := range []ast.Expr{s.Key, s.Value} {
			if x == nil {
				continue
			}
			id, ok := x.(*ast.Ident)
			if !ok {
				unsupported("range variable")
			}
			names = append(names, id.Name)
		}
		c.B.ForRange(names...)
		c.expr(s.X)
		c.B.RangeAssignThen(token.NoPos)
	} else {
		c.B.ForRange()
		n := 0
		for _, x := range []ast.Expr{s.Key, s.Value} {
			if x != nil {
				c.ref(x)
				n++
			}
		}
		c.expr(s.X)
		c.B.RangeAssignThen(token.NoPos)
	}
	c.block(s.Body)
	c.B.End()
}

func (c *Compiler) typeSwitch(s *ast.TypeSwitchStmt) {
	name := ""
	var x ast.Expr
	switch a := s.Assign.(type) {
	case *ast.AssignStmt:
		name = a.Lhs[0].(*ast.Ident).Name
		x = a.Rhs[0].(*ast.TypeAssertExpr).X
	case *ast.ExprStmt:
		x = a.X.(*ast.TypeAssertExpr).X
	}
	c.B.TypeSwitch(name)
	c.simpleStmt(s.Init)
	c.expr(x)
	c.B.TypeAssertThen()
	for _, cc := range s.Body.List {
		cl := cc.(*ast.CaseClause)
		if cl.List == nil {
			c.B.TypeDefaultThen()
		} else {
			c.B.TypeCase()
			for _, t := range cl.List {
				if tv := c.info.Types[t]; tv.IsNil() {
					c.B.Val(nil)
				} else {
					c.B.Typ(c.typExpr(t))
				}
			}
			c.B.Then()
		}
		c.caseBody(cl.Body)
		c.B.End()
	}
	c.B.End()
}

func (c *Compiler) declStmt(d *ast.GenDecl) {
	switch d.Tok {
	case token.VAR:
		for _, sp := range d.Specs {
			vs := sp.(*ast.ValueSpec)
			var t types.Type
			if vs.Type != nil {
				t = c.typExpr(vs.Type)
			}
			names := make([]string, len(vs.Names))
			for i, n := range vs.Names {
				names[i] = n.Name
			}
			if len(vs.Values) == 0 {
				c.B.NewVar(t, names...)
				continue
			}
			c.B.NewVarStart(t, names...)
			for _, v := range vs.Values {
				c.expr(v)
			}
			c.B.EndInit(len(vs.Values))
		}
	case token.CONST:
		c.constBlock(d, c.Pkg.NewConstDefs(c.Pkg.CB().Scope()))
	case token.TYPE:
		for _, sp := range d.Specs {
			ts := sp.(*ast.TypeSpec)
			if ts.TypeParams != nil {
				unsupported("local generic type")
			}
			obj := c.info.Defs[ts.Name].(*types.TypeName)
			if ts.Assign.IsValid() {
				c.localTN[obj] = c.Pkg.CB().AliasType(ts.Name.Name, c.typ(types.Unalias(obj.Type())))
				continue
			}
			decl := c.Pkg.CB().NewType(ts.Name.Name)
			c.localTN[obj] = decl.Type()
			decl.InitType(c.Pkg, c.typ(c.info.TypeOf(ts.Type)))
		}
	}
}
