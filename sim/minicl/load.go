package minicl

import (
	"go/ast"
	"go/parser"
	"go/token"
	"go/types"
)

// SrcFile is a file given as text.
type SrcFile struct {
	Name, Text string
}

// Load parses and type-checks source files with the given importer. A program go/types
// rejects is never fed to gogen: the error is returned.
func Load(fset *token.FileSet, pkgPath string, src []SrcFile, imp types.Importer) ([]*File, *types.Package, *types.Info, error) {
	var files []*File
	var asts []*ast.File
	for _, s := range src {
		f, err := parser.ParseFile(fset, s.Name, s.Text, parser.SkipObjectResolution|parser.ParseComments)
		if err != nil {
			return nil, nil, nil, err
		}
		files = append(files, &File{Name: s.Name, AST: f})
		asts = append(asts, f)
	}
	info := &types.Info{
		Types:      map[ast.Expr]types.TypeAndValue{},
		Defs:       map[*ast.Ident]types.Object{},
		Uses:       map[*ast.Ident]types.Object{},
		Implicits:  map[ast.Node]types.Object{},
		Selections: map[*ast.SelectorExpr]*types.Selection{},
		Instances:  map[*ast.Ident]types.Instance{},
		Scopes:     map[ast.Node]*types.Scope{},
	}
	conf := types.Config{Importer: imp}
	pkg, err := conf.Check(pkgPath, fset, asts, info)
	if err != nil {
		return nil, nil, nil, err
	}
	return files, pkg, info, nil
}
