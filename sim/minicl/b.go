// Package minicl is a small Go-subset front end for gogen, modelled on XGo's cl package:
// it walks parsed and type-checked Go files and issues the canonical builder operations,
// declaring package-level symbols on demand (switching the current file, compiling
// initialisers above the operands of the expression in progress) and completing named
// types from the LoadNamed callback. It stands in for the real client of gogen.
package minicl

import (
	"go/ast"
	"go/token"
	"go/types"
	"math/big"

	"github.com/goplus/gogen"
)

// Hooks observe every builder operation the front end issues.
type Hooks struct {
	// Before is called before an operation is issued (scheduling point).
	Before func(op string)
	// After is called after it returned; a, b are the operation's arity arguments.
	After func(op string, a, b int)
	// Enter/Leave bracket a nested, re-entrant front-end action (on-demand declaration,
	// lazy load); depth is the nesting depth after Enter.
	Enter func(what, name string)
	Leave func(what, name string)
}

// B wraps the CodeBuilder: one method per builder operation, each reporting to the hooks.
type B struct {
	cb *gogen.CodeBuilder
	h  *Hooks
	N  int // operations issued
}

func (b *B) pre(op string) {
	b.N++
	if b.h != nil && b.h.Before != nil {
		b.h.Before(op)
	}
}

func (b *B) post(op string, x, y int) {
	if b.h != nil && b.h.After != nil {
		b.h.After(op, x, y)
	}
}

func (b *B) CB() *gogen.CodeBuilder { return b.cb }

func (b *B) Val(v any)              { b.pre("Val"); b.cb.Val(v); b.post("Val", 0, 0) }
func (b *B) VarVal(name string)     { b.pre("VarVal"); b.cb.VarVal(name); b.post("VarVal", 0, 0) }
func (b *B) Typ(t types.Type)       { b.pre("Typ"); b.cb.Typ(t); b.post("Typ", 0, 0) }
func (b *B) None()                  { b.pre("None"); b.cb.None(); b.post("None", 0, 0) }
func (b *B) ZeroLit(t types.Type)   { b.pre("ZeroLit"); b.cb.ZeroLit(t); b.post("ZeroLit", 0, 0) }
func (b *B) VarRef(ref any)         { b.pre("VarRef"); b.cb.VarRef(ref); b.post("VarRef", 0, 0) }
func (b *B) UnaryOp(op token.Token) { b.pre("UnaryOp"); b.cb.UnaryOp(op); b.post("UnaryOp", 0, 0) }
func (b *B) UnaryOpEx(op token.Token, l int) {
	b.pre("UnaryOpEx")
	b.cb.UnaryOpEx(op, l)
	b.post("UnaryOp", 0, 0)
}
func (b *B) BinaryOp(op token.Token) { b.pre("BinaryOp"); b.cb.BinaryOp(op); b.post("BinaryOp", 0, 0) }
func (b *B) CompareNil(op token.Token) {
	b.pre("CompareNil")
	b.cb.CompareNil(op)
	b.post("CompareNil", 0, 0)
}
func (b *B) Call(n int, ellipsis bool) {
	b.pre("Call")
	b.cb.Call(n, ellipsis)
	b.post("Call", n, 0)
}

// CallLHS is Call with the number of values the statement expects (XGo passes 2 for `a, ok := f(x)`).
func (b *B) CallLHS(n, lhs int, ellipsis bool) {
	b.pre("Call")
	var flags gogen.InstrFlags
	if ellipsis {
		flags = gogen.InstrFlagEllipsis
	}
	b.cb.CallWith(n, lhs, flags)
	b.post("Call", n, 0)
}
func (b *B) CallWithEx(n int, flags gogen.InstrFlags) error {
	b.pre("CallWithEx")
	err := b.cb.CallWithEx(n, 0, flags)
	if err != nil {
		b.post("CallWithEx!err", n, 0)
	} else {
		b.post("Call", n, 0)
	}
	return err
}
func (b *B) MemberVal(name string) {
	b.pre("MemberVal")
	b.cb.MemberVal(name, 0)
	b.post("MemberVal", 0, 0)
}
func (b *B) MemberRef(name string) {
	b.pre("MemberRef")
	b.cb.MemberRef(name)
	b.post("MemberRef", 0, 0)
}
func (b *B) Index(n int, lhs int) { b.pre("Index"); b.cb.Index(n, lhs); b.post("Index", n, 0) }
func (b *B) IndexRef(n int)       { b.pre("IndexRef"); b.cb.IndexRef(n); b.post("IndexRef", n, 0) }
func (b *B) Slice(three bool) {
	b.pre("Slice")
	b.cb.Slice(three)
	if three {
		b.post("Slice", 3, 0)
	} else {
		b.post("Slice", 2, 0)
	}
}
func (b *B) Star()    { b.pre("Star"); b.cb.Star(); b.post("Star", 0, 0) }
func (b *B) Elem()    { b.pre("Elem"); b.cb.Elem(); b.post("Elem", 0, 0) }
func (b *B) ElemRef() { b.pre("ElemRef"); b.cb.ElemRef(); b.post("ElemRef", 0, 0) }
func (b *B) TypeAssert(t types.Type, lhs int) {
	b.pre("TypeAssert")
	b.cb.TypeAssert(t, lhs)
	b.post("TypeAssert", 0, 0)
}
func (b *B) StructLit(t types.Type, n int, kv bool) {
	b.pre("StructLit")
	b.cb.StructLit(t, n, kv)
	b.post("Lit", n, 0)
}
func (b *B) SliceLit(t types.Type, n int, kv bool) {
	b.pre("SliceLit")
	b.cb.SliceLit(t, n, kv)
	b.post("Lit", n, 0)
}
func (b *B) ArrayLit(t types.Type, n int, kv bool) {
	b.pre("ArrayLit")
	b.cb.ArrayLit(t, n, kv)
	b.post("Lit", n, 0)
}
func (b *B) MapLit(t types.Type, n int) { b.pre("MapLit"); b.cb.MapLit(t, n); b.post("Lit", n, 0) }
func (b *B) Assign(l, r int)            { b.pre("Assign"); b.cb.Assign(l, r); b.post("Assign", l, r) }
func (b *B) AssignOp(op token.Token)    { b.pre("AssignOp"); b.cb.AssignOp(op); b.post("AssignOp", 0, 0) }
func (b *B) IncDec(op token.Token)      { b.pre("IncDec"); b.cb.IncDec(op); b.post("IncDec", 0, 0) }
func (b *B) Send()                      { b.pre("Send"); b.cb.Send(); b.post("Send", 0, 0) }
func (b *B) Defer()                     { b.pre("Defer"); b.cb.Defer(); b.post("Defer", 0, 0) }
func (b *B) Go()                        { b.pre("Go"); b.cb.Go(); b.post("Go", 0, 0) }
func (b *B) Return(n int)               { b.pre("Return"); b.cb.Return(n); b.post("Return", n, 0) }
func (b *B) EndStmt()                   { b.pre("EndStmt"); b.cb.EndStmt(); b.post("EndStmt", 0, 0) }
func (b *B) ResetStmt()                 { b.pre("ResetStmt"); b.cb.ResetStmt(); b.post("ResetStmt", 0, 0) }
func (b *B) ResetInit()                 { b.pre("ResetInit"); b.cb.ResetInit(); b.post("ResetInit", 0, 0) }
func (b *B) EndInit(n int)              { b.pre("EndInit"); b.cb.EndInit(n); b.post("EndInit", n, 0) }
func (b *B) DefineVarStart(pos token.Pos, names ...string) {
	b.pre("DefineVarStart")
	b.cb.DefineVarStart(pos, names...)
	b.post("InitStart", 0, 0)
}
func (b *B) NewVarStart(t types.Type, names ...string) {
	b.pre("NewVarStart")
	b.cb.NewVarStart(t, names...)
	b.post("InitStart", 0, 0)
}
func (b *B) NewConstStart(t types.Type, names ...string) {
	b.pre("NewConstStart")
	b.cb.NewConstStart(t, names...)
	b.post("InitStart", 0, 0)
}
func (b *B) NewVar(t types.Type, names ...string) {
	b.pre("NewVar")
	b.cb.NewVar(t, names...)
	b.post("NewVar", 0, 0)
}

// block-forming constructs
func (b *B) Block()       { b.pre("Block"); b.cb.Block(); b.post("Open:block", 0, 0) }
func (b *B) If()          { b.pre("If"); b.cb.If(); b.post("Open:if", 0, 0) }
func (b *B) Then()        { b.pre("Then"); b.cb.Then(); b.post("Then", 0, 0) }
func (b *B) Else()        { b.pre("Else"); b.cb.Else(); b.post("Else", 0, 0) }
func (b *B) For()         { b.pre("For"); b.cb.For(); b.post("Open:for", 0, 0) }
func (b *B) Post()        { b.pre("Post"); b.cb.Post(); b.post("Post", 0, 0) }
func (b *B) Switch()      { b.pre("Switch"); b.cb.Switch(); b.post("Open:switch", 0, 0) }
func (b *B) Case()        { b.pre("Case"); b.cb.Case(); b.post("Open:case", 0, 0) }
func (b *B) DefaultThen() { b.pre("DefaultThen"); b.cb.DefaultThen(); b.post("Open:case+then", 0, 0) }
func (b *B) Fallthrough() { b.pre("Fallthrough"); b.cb.Fallthrough(); b.post("Fallthrough", 0, 0) }
func (b *B) Select()      { b.pre("Select"); b.cb.Select(); b.post("Open:select", 0, 0) }
func (b *B) CommCase()    { b.pre("CommCase"); b.cb.CommCase(); b.post("Open:commcase", 0, 0) }
func (b *B) CommDefaultThen() {
	b.pre("CommDefaultThen")
	b.cb.CommDefaultThen()
	b.post("Open:commcase+then", 0, 0)
}
func (b *B) TypeSwitch(name string) {
	b.pre("TypeSwitch")
	b.cb.TypeSwitch(name)
	b.post("Open:typeswitch", 0, 0)
}
func (b *B) TypeAssertThen() {
	b.pre("TypeAssertThen")
	b.cb.TypeAssertThen()
	b.post("TypeAssertThen", 0, 0)
}
func (b *B) TypeCase() { b.pre("TypeCase"); b.cb.TypeCase(); b.post("Open:typecase", 0, 0) }
func (b *B) TypeDefaultThen() {
	b.pre("TypeDefaultThen")
	b.cb.TypeDefaultThen()
	b.post("Open:typecase+then", 0, 0)
}
func (b *B) ForRange(names ...string) {
	b.pre("ForRange")
	b.cb.ForRange(names...)
	b.post("Open:range", 0, 0)
}
func (b *B) RangeAssignThen(pos token.Pos) {
	b.pre("RangeAssignThen")
	b.cb.RangeAssignThen(pos)
	b.post("RangeAssignThen", 0, 0)
}
func (b *B) End()                 { b.pre("End"); b.cb.End(); b.post("End", 0, 0) }
func (b *B) Label(l *gogen.Label) { b.pre("Label"); b.cb.Label(l); b.post("Label", 0, 0) }
func (b *B) Goto(l *gogen.Label)  { b.pre("Goto"); b.cb.Goto(l); b.post("Goto", 0, 0) }
func (b *B) Break(l *gogen.Label) { b.pre("Break"); b.cb.Break(l); b.post("Break", 0, 0) }
func (b *B) Continue(l *gogen.Label) {
	b.pre("Continue")
	b.cb.Continue(l)
	b.post("Continue", 0, 0)
}

// function bodies and closures
func (b *B) BodyStart(fn *gogen.Func, pkg *gogen.Package) {
	b.pre("BodyStart")
	fn.BodyStart(pkg)
	b.post("Open:func", 0, 0)
}
func (b *B) NewClosure(params, results *types.Tuple, variadic bool) *gogen.Func {
	b.pre("NewClosure")
	fn := b.cb.NewClosure(params, results, variadic)
	b.post("NewClosure", 0, 0)
	return fn
}

// NewClosureWith creates a closure from a signature object the front end owns (and may use
// for several closures, also nested ones).
func (b *B) NewClosureWith(sig *types.Signature) *gogen.Func {
	b.pre("NewClosure")
	fn := b.cb.NewClosureWith(sig)
	b.post("NewClosure", 0, 0)
	return fn
}
func (b *B) ClosureBodyStart(fn *gogen.Func, pkg *gogen.Package) {
	b.pre("BodyStart")
	fn.BodyStart(pkg)
	b.post("Open:closure", 0, 0)
}

// BigInt pushes an untyped big integer (XGo configuration).
func (b *B) BigInt(v int64) {
	b.pre("UntypedBigInt")
	b.cb.UntypedBigInt(big.NewInt(v))
	b.post("Val", 0, 0)
}

// ValWithUnit pushes a literal with a unit (XGo: 5m) of a named type that has a unit table.
func (b *B) ValWithUnit(lit string, t types.Type, unit string) {
	b.pre("ValWithUnit")
	b.cb.ValWithUnit(&ast.BasicLit{Kind: token.INT, Value: lit}, t, unit)
	b.post("Val", 0, 0)
}

// BTICall calls a method the front end registered for a builtin type: MemberVal keeps the
// receiver as first argument below the method and Call(n) consumes both, so the pair is
// reported as one operation that replaces the receiver (and n arguments) by the result.
func (b *B) BTICall(name string, n int) {
	b.pre("BTICall")
	b.cb.MemberVal(name, 0)
	b.cb.Call(n)
	b.post("Call", n, 0)
}

// VBlock opens a virtual block (a scope without braces).
func (b *B) VBlock() { b.pre("VBlock"); b.cb.VBlock(); b.post("Open:vblock", 0, 0) }

// InlineStart opens an inline closure call over the nargs operands on the stack.
func (b *B) InlineStart(sig *types.Signature, nargs int) {
	b.pre("BodyStart")
	b.cb.CallInlineClosureStart(sig, nargs, false)
	b.post("InlineStart", nargs, sig.Results().Len())
}

// Discard drops n operands that were built and are not wanted (no error involved), as a
// compiler does when it probes an expression and retries another way.
func (b *B) Discard(n int) {
	b.pre("Discard")
	b.cb.InternalStack().PopN(n)
	b.post("Discard", n, 0)
}

// ReturnShort is Return(n) issued although the result operands failed to compile and were
// never pushed (documented: the statement is still recorded as a return, the stack is left
// alone).
func (b *B) ReturnShort(n int) {
	b.pre("Return")
	b.cb.Return(n)
	b.post("Return!short", n, 0)
}

// EndInitFailed tells the observers that EndInit reported an error. EndInit cleans up after
// itself (deferred pop and end of the initialiser context; gogen's own callInitExpr relies
// on it: it calls ResetInit only when the initialiser callback did not return).
func (b *B) EndInitFailed() { b.post("EndInit!fail", 0, 0) }

// Abort tells the observers that an operation failed in the middle of a construct: nothing
// is asserted until the documented recovery call that follows.
func (b *B) Abort() { b.post("Abort", 0, 0) }

var _ ast.Node
