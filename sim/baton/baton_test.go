package baton

import "testing"

var shared int

//go:noinline
func touch(i int) { shared += i }

func TestOrder(t *testing.T) {
	s := New()
	var log []int
	for i := 0; i < 3; i++ {
		s.Go(func(tk *Task) {
			for k := 0; k < 3; k++ {
				log = append(log, tk.ID) // racy on purpose only w.r.t. detector: run without -race
				tk.Yield()
			}
		})
	}
	seq := []int{2, 2, 0, 1, 1, 0, 2, 0, 1, 0, 1, 2}
	s.Pick = func(step int, r []int, last int) int {
		if step < len(seq) {
			for _, x := range r {
				if x == seq[step] {
					return x
				}
			}
		}
		return r[0]
	}
	s.Run()
	t.Log(log, s.Trace)
}
