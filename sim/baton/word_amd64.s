#include "textflag.h"

// Plain atomic word operations in assembly: invisible to the race detector, so the
// baton hand-off creates no happens-before edge between tasks.

// func xchg(addr *uint32, v uint32) uint32
TEXT ·xchg(SB),NOSPLIT,$0-20
	MOVQ addr+0(FP), BX
	MOVL v+8(FP), AX
	XCHGL AX, 0(BX)
	MOVL AX, ret+16(FP)
	RET

// func load(addr *uint32) uint32
TEXT ·load(SB),NOSPLIT,$0-12
	MOVQ addr+0(FP), BX
	MOVL 0(BX), AX
	MOVL AX, ret+8(FP)
	RET

// func xadd64(addr *uint64, v uint64) uint64
TEXT ·xadd64(SB),NOSPLIT,$0-24
	MOVQ addr+0(FP), BX
	MOVQ v+8(FP), AX
	MOVQ AX, CX
	LOCK
	XADDQ AX, 0(BX)
	ADDQ CX, AX
	MOVQ AX, ret+16(FP)
	RET
