// Package baton is a deterministic cooperative scheduler for real goroutines.
//
// Exactly one task runs at a time. The hand-off is a word exchanged in assembly plus a raw
// futex system call, issued from //go:norace code, so the Go race detector does not see
// a happens-before edge between tasks: two tasks that touch the same memory without
// synchronising *through the code under test* are reported whatever the timing.
package baton

import (
	"fmt"
	"runtime"
	"runtime/debug"
	"sync"
	"syscall"
	"unsafe"
)

func xchg(addr *uint32, v uint32) uint32
func load(addr *uint32) uint32
func xadd64(addr *uint64, v uint64) uint64

const (
	futexWait = 0 | 128 // FUTEX_WAIT | FUTEX_PRIVATE_FLAG
	futexWake = 1 | 128
)

//go:norace
func waitFor(addr *uint32) {
	for {
		if xchg(addr, 0) == 1 {
			return
		}
		syscall.Syscall6(syscall.SYS_FUTEX, uintptr(unsafe.Pointer(addr)), futexWait, 0, 0, 0, 0)
	}
}

//go:norace
func signal(addr *uint32) {
	xchg(addr, 1)
	syscall.Syscall6(syscall.SYS_FUTEX, uintptr(unsafe.Pointer(addr)), futexWake, 1, 0, 0, 0)
}

// Task is one simulated actor.
type Task struct {
	ID       int
	s        *Sched
	word     uint32
	done     uint32
	Panic    any
	Stack    string
	Yields   int // number of yields performed (harness level)
	fine     int // function-entry yields seen
	body     func(t *Task)
	switches int
	blocked  uint32 // set by BlockYield: waiting for a lock, skipped by the next decision
}

// Sched owns the baton.
type Sched struct {
	tasks   []*Task
	word    uint32
	running *Task // accessed from norace code only
	seq     uint64
	wg      sync.WaitGroup

	// Pick chooses the next task among the runnable ones (ids ascending); step counts
	// scheduler decisions. It runs on the scheduler goroutine.
	Pick func(step int, runnable []int, last int) int
	// MaxSteps caps the run.
	MaxSteps int
	// OnStep runs on the scheduler goroutine after every step, while all tasks are parked.
	OnStep func(step int, ran int)
	Steps  int
	Trace  []int // chosen task per step
	Capped bool
	Blocks int // yields of tasks that found a lock taken
}

func New() *Sched { return &Sched{MaxSteps: 200000} }

// Seq returns the next global event sequence number (strictly increasing).
//
//go:norace
func (s *Sched) Seq() uint64 { return xadd64(&s.seq, 1) }

// Go registers a task. Must be called before Run.
func (s *Sched) Go(body func(t *Task)) *Task {
	t := &Task{ID: len(s.tasks), s: s, body: body}
	s.tasks = append(s.tasks, t)
	return t
}

//go:norace
func (s *Sched) setRunning(t *Task) { s.running = t }

// Running returns the task that holds the baton, nil while the scheduler itself runs.
//
//go:norace
func (s *Sched) Running() *Task { return s.running }

//go:norace
func (t *Task) isDone() bool { return load(&t.done) == 1 }

// Yield hands the baton back to the scheduler and parks until chosen again.
//
//go:norace
func (t *Task) Yield() {
	t.Yields++
	s := t.s
	s.setRunning(nil)
	signal(&s.word)
	waitFor(&t.word)
}

// BlockYield is Yield for a task that cannot proceed (it waits for a lock another task
// holds): the scheduler leaves it out of its next decision, then it tries again.
//
//go:norace
func (t *Task) BlockYield() {
	xchg(&t.blocked, 1)
	t.s.Blocks++
	t.Yield()
}

// FineYields returns the number of function-entry yield points this task has passed.
//
//go:norace
func (t *Task) FineYields() int { return t.fine }

//go:norace
func (t *Task) IncFine() int { t.fine++; return t.fine }

func (t *Task) run() {
	defer t.s.wg.Done()
	waitFor(&t.word)
	defer func() {
		if r := recover(); r != nil {
			t.Panic = r
			t.Stack = string(debug.Stack())
		}
		t.finish()
	}()
	t.body(t)
}

//go:norace
func (t *Task) finish() {
	xchg(&t.done, 1)
	t.s.setRunning(nil)
	signal(&t.s.word)
}

// Run executes all tasks to completion (or until MaxSteps) under the Pick policy.
func (s *Sched) Run() {
	for _, t := range s.tasks {
		s.wg.Add(1)
		go t.run()
	}
	last := -1
	for {
		var runnable, waiting []int
		for _, t := range s.tasks {
			if !t.isDone() {
				if load(&t.blocked) != 0 {
					waiting = append(waiting, t.ID)
					xchg(&t.blocked, 0) // skipped for one decision only
				} else {
					runnable = append(runnable, t.ID)
				}
			}
		}
		if len(runnable) == 0 {
			runnable = waiting // everybody waits: let them try again (a real deadlock ends at the step cap)
		}
		if len(runnable) == 0 {
			break
		}
		if s.Steps >= s.MaxSteps {
			s.Capped = true
			// let the remaining tasks run to completion one after the other without
			// further choices, so that goroutines do not leak.
		}
		var next int
		if s.Capped || s.Pick == nil {
			next = runnable[0]
			for _, r := range runnable {
				if r == last {
					next = r
				}
			}
		} else {
			next = s.Pick(s.Steps, runnable, last)
		}
		ok := false
		for _, r := range runnable {
			if r == next {
				ok = true
			}
		}
		if !ok {
			panic(fmt.Sprintf("baton: Pick returned non-runnable task %d", next))
		}
		s.Steps++
		if len(s.Trace) < 1<<16 {
			s.Trace = append(s.Trace, next)
		}
		t := s.tasks[next]
		if last != next {
			t.switches++
		}
		last = next
		s.setRunning(t)
		signal(&t.word)
		waitFor(&s.word)
		if s.OnStep != nil {
			s.OnStep(s.Steps, next)
		}
	}
	s.wg.Wait() // real happens-before edge: task results may now be read
	runtime.KeepAlive(s)
}

func (s *Sched) Tasks() []*Task { return s.tasks }
