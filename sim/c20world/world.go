// Package c20world is shared knowledge between the C20 engine and the stub `go` command
// (sim/stubgo/stubgo.c): the simulated world of packages, versions and dependencies, the
// naming of export files, and the stub's log format.
package c20world

import (
	"crypto/sha256"
	"encoding/hex"
	"fmt"
	"strconv"
	"strings"
)

type Pkg struct {
	Name string
	Ver  int
	Deps []int
}

type World struct {
	Pkgs      []Pkg
	Untracked []bool
	SelfSkip  []bool         // the package's own fingerprint is "" (its own changes are not tracked)
	Faults    map[int]string // invocation index -> fault kind
	Real      bool           // export files hold real gc export data (const Ident = build identity)
}

// Text is the form the stub reads.
func (w *World) Text() []byte {
	var b strings.Builder
	fmt.Fprintf(&b, "N %d\n", len(w.Pkgs))
	if w.Real {
		b.WriteString("R 1\n")
	}
	for i, p := range w.Pkgs {
		un := 0
		if i < len(w.Untracked) && w.Untracked[i] {
			un = 1
		}
		ss := 0
		if i < len(w.SelfSkip) && w.SelfSkip[i] {
			ss = 1
		}
		fmt.Fprintf(&b, "P %d %s %d %d %d %d", i, p.Name, p.Ver, un, ss, len(p.Deps))
		for _, d := range p.Deps {
			fmt.Fprintf(&b, " %d", d)
		}
		b.WriteByte('\n')
	}
	// ascending order: the harness never ranges a map unsorted
	max := -1
	for k := range w.Faults {
		if k > max {
			max = k
		}
	}
	for k := 0; k <= max; k++ {
		if f, ok := w.Faults[k]; ok {
			fmt.Fprintf(&b, "F %d %s\n", k, f)
		}
	}
	return []byte(b.String())
}

type Printed struct {
	Name, File, State string
}

type LogLine struct {
	N       int
	Args    string
	Fault   string
	Printed []Printed
	OK      bool // the output was a well-formed complete listing and exit status 0
	Lenient bool // exit status 0 but the output is malformed or empty: a reader may reject it or take its well-formed lines
	Exit    int
	Dir     string // "A": the working directory, "B": the second directory (another module)
}

func ParseLog(line string) (ll LogLine, err error) {
	for _, f := range strings.Split(line, "\t") {
		k, v, ok := strings.Cut(f, "=")
		if !ok {
			return ll, fmt.Errorf("bad stub log field %q", f)
		}
		switch k {
		case "n":
			ll.N, err = strconv.Atoi(v)
		case "fault":
			ll.Fault = v
		case "ok":
			ll.OK = v == "1"
		case "lenient":
			ll.Lenient = v == "1"
		case "exit":
			ll.Exit, err = strconv.Atoi(v)
		case "dir":
			ll.Dir = v
		case "args":
			ll.Args = v
		case "printed":
			if v != "" {
				for _, p := range strings.Split(v, ";") {
					x := strings.Split(p, "|")
					if len(x) != 3 {
						return ll, fmt.Errorf("bad printed %q", p)
					}
					ll.Printed = append(ll.Printed, Printed{x[0], x[1], x[2]})
				}
			}
		}
		if err != nil {
			return
		}
	}
	return
}

// StateID is the build identity of a package: its version and the versions of its tracked deps.
func StateID(w *World, i int) string {
	p := w.Pkgs[i]
	var b strings.Builder
	if i < len(w.SelfSkip) && w.SelfSkip[i] {
		fmt.Fprintf(&b, "%s@*[", p.Name)
	} else {
		fmt.Fprintf(&b, "%s@%d[", p.Name, p.Ver)
	}
	first := true
	for _, d := range p.Deps {
		if d < len(w.Untracked) && w.Untracked[d] {
			continue
		}
		if !first {
			b.WriteByte(',')
		}
		first = false
		fmt.Fprintf(&b, "%s@%d", w.Pkgs[d].Name, w.Pkgs[d].Ver)
	}
	b.WriteByte(']')
	return b.String()
}

// FileOf names the export file of a build identity: readable part plus FNV-1a checksum, so
// that no single corrupted byte of a stored file name can name another existing file.
func FileOf(root, state string) string {
	h := uint64(1469598103934665603)
	for i := 0; i < len(state); i++ {
		h ^= uint64(state[i])
		h *= 1099511628211
	}
	return fmt.Sprintf("%s/exp/%s-%016x.a", root, strings.ReplaceAll(state, "/", "_"), h)
}

// Fingerprint is what the scripted PkgHash answers for a package at a version.
func Fingerprint(name string, ver int, self bool) string {
	k := "d"
	if self {
		k = "s"
	}
	h := sha256.Sum256([]byte(fmt.Sprintf("%s|%d|%s", name, ver, k)))
	return "fp" + k + hex.EncodeToString(h[:])[:14]
}
