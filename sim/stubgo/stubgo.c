/* stubgo: stands in for the `go` command on the PATH of the C20 engine.
 * It answers `go list -f=... -export pkgs...` from the world snapshot the harness
 * publishes (world.txt) and applies the listing fault planned for this invocation.
 * Static C because a Go binary costs ~15 ms to start in this sandbox and this one ~2 ms.
 *
 * world.txt:   N <npkgs>
 *              P <idx> <name> <ver> <untracked> <selfskip> <ndeps> <dep idx>...
 *              F <invocation index> <fault kind>
 *              R 1          export files are real gc export data (compiled by $VERIF_COMPILE from
 *                           `package pN; const Ident = "<build identity>"`), kept in $VERIF_STUB_STORE
 * stub.log:    one line per invocation, tab separated key=value (see c20world.ParseLog)
 * stub.count:  one byte appended per invocation (its size is the invocation counter)
 */
#include <stdio.h>
#include <stdlib.h>
#include <string.h>
#include <unistd.h>
#include <sys/stat.h>
#include <fcntl.h>
#include <stdint.h>
#include <sys/wait.h>

#define MAXP 16
struct pkg { char name[64]; int ver; int untracked; int selfskip; int ndeps; int deps[MAXP]; };
static struct pkg P[MAXP];
static int NP = 0;
static char root[1024];
static char outbuf[1 << 16], logprinted[1 << 16];
static int outlen = 0, lplen = 0;
static int real_mode = 0, export_only = 0;
static int dir_b = 0; /* the command runs in the second directory ("work2"): another module, in which
                       * odd-numbered packages do not exist and the others are a different build ("+B") */

/* real export data for a build identity: taken from the store shared by all workers of a
 * check, or compiled now */
static int make_real(int i, const char *st, const char *f) {
    const char *store = getenv("VERIF_STUB_STORE"), *comp = getenv("VERIF_COMPILE");
    if (!store || !comp) return -1;
    char sf[1500], tmp[1600], src[1600];
    const char *base = strrchr(f, '/'); base = base ? base + 1 : f;
    snprintf(sf, sizeof sf, "%s/%s", store, base);
    if (link(sf, f) == 0) return 0;
    struct stat sb;
    if (stat(f, &sb) == 0) return 0;
    snprintf(tmp, sizeof tmp, "%s.tmp%d", sf, (int)getpid());
    snprintf(src, sizeof src, "%s.tmp%d.go", sf, (int)getpid());
    const char *pn = strrchr(P[i].name, '/'); pn = pn ? pn + 1 : P[i].name;
    FILE *s = fopen(src, "w");
    if (!s) return -1;
    fprintf(s, "package %s\n\nconst Ident = \"%s\"\n", pn, st);
    fclose(s);
    pid_t pid = fork();
    if (pid == 0) {
        int dn = open("/dev/null", O_WRONLY);
        if (dn >= 0) { dup2(dn, 1); dup2(dn, 2); }
        execl(comp, comp, "-p", P[i].name, "-o", tmp, src, (char *)0);
        _exit(127);
    }
    int status = 0;
    if (pid < 0 || waitpid(pid, &status, 0) < 0 || !WIFEXITED(status) || WEXITSTATUS(status) != 0) { unlink(src); unlink(tmp); return -1; }
    unlink(src);
    if (rename(tmp, sf) != 0) { unlink(tmp); return -1; }
    if (link(sf, f) != 0 && stat(f, &sb) != 0) return -1;
    return 0;
}

static void state_id(int i, char *dst, size_t n) {
    size_t k;
    if (P[i].selfskip) k = snprintf(dst, n, "%s@*[", P[i].name); /* own changes are not tracked */
    else k = snprintf(dst, n, "%s@%d[", P[i].name, P[i].ver);
    int first = 1;
    for (int j = 0; j < P[i].ndeps; j++) {
        int d = P[i].deps[j];
        if (d < NP && P[d].untracked) continue;
        k += snprintf(dst + k, n - k, "%s%s@%d", first ? "" : ",", P[d].name, P[d].ver);
        first = 0;
    }
    k += snprintf(dst + k, n - k, "]");
    if (dir_b) snprintf(dst + k, n - k, "+B");
}

static void file_of(const char *state, char *dst, size_t n) {
    uint64_t h = 1469598103934665603ULL;
    for (const char *p = state; *p; p++) { h ^= (unsigned char)*p; h *= 1099511628211ULL; }
    char san[512]; size_t k = 0;
    for (const char *p = state; *p && k < sizeof san - 1; p++) san[k++] = (*p == '/') ? '_' : *p;
    san[k] = 0;
    snprintf(dst, n, "%s/exp/%s-%016llx.a", root, san, (unsigned long long)h);
}

static void emit(int i, int create) {
    char st[512], f[1400];
    state_id(i, st, sizeof st);
    file_of(st, f, sizeof f);
    if (create) {
        struct stat sb;
        if (stat(f, &sb) != 0 && real_mode) {
            if (make_real(i, st, f) != 0) { fprintf(stderr, "stubgo: cannot build real export data for %s\n", st); exit(3); }
        } else if (stat(f, &sb) != 0) {
            char tmp[1500];
            snprintf(tmp, sizeof tmp, "%s.tmp%d", f, (int)getpid());
            int fd = open(tmp, O_WRONLY | O_CREAT | O_TRUNC, 0644);
            if (fd >= 0) { if (write(fd, st, strlen(st)) < 0) {} close(fd); rename(tmp, f); }
        }
    } else {
        strncat(f, ".missing", sizeof f - strlen(f) - 1);
    }
    if (export_only) { /* go list -f={{.Export}} */
        outlen += snprintf(outbuf + outlen, sizeof outbuf - outlen, "%s\n", f);
    } else {
        outlen += snprintf(outbuf + outlen, sizeof outbuf - outlen, "%s\t%s\t[", P[i].name, f);
        for (int j = 0; j < P[i].ndeps; j++)
            outlen += snprintf(outbuf + outlen, sizeof outbuf - outlen, "%s%s", j ? " " : "", P[P[i].deps[j]].name);
        outlen += snprintf(outbuf + outlen, sizeof outbuf - outlen, "]\n");
    }
    lplen += snprintf(logprinted + lplen, sizeof logprinted - lplen, "%s%s|%s|%s", lplen ? ";" : "", P[i].name, f, st);
}

int main(int argc, char **argv) {
    const char *r = getenv("VERIF_STUB_DIR");
    if (!r) { fprintf(stderr, "stubgo: VERIF_STUB_DIR not set\n"); return 3; }
    snprintf(root, sizeof root, "%s", r);
    char path[1200];
    {
        char cwd[1024];
        if (getcwd(cwd, sizeof cwd)) {
            size_t l = strlen(cwd);
            if (l >= 6 && strcmp(cwd + l - 6, "/work2") == 0) dir_b = 1;
        }
    }
    snprintf(path, sizeof path, "%s/stub.count", root);
    struct stat sb; long n = 0;
    if (stat(path, &sb) == 0) n = (long)sb.st_size;
    snprintf(path, sizeof path, "%s/world.txt", root);
    FILE *w = fopen(path, "r");
    if (!w) { fprintf(stderr, "stubgo: no world\n"); return 3; }
    char fault[64] = "";
    char line[4096];
    while (fgets(line, sizeof line, w)) {
        if (line[0] == 'P') {
            int idx, off = 0; char name[64]; int ver, un, ss, nd;
            if (sscanf(line, "P %d %63s %d %d %d %d%n", &idx, name, &ver, &un, &ss, &nd, &off) < 6 || idx >= MAXP) continue;
            struct pkg *p = &P[idx];
            strcpy(p->name, name); p->ver = ver; p->untracked = un; p->selfskip = ss; p->ndeps = nd;
            char *q = line + off;
            for (int j = 0; j < nd && j < MAXP; j++) { p->deps[j] = (int)strtol(q, &q, 10); }
            if (idx + 1 > NP) NP = idx + 1;
        } else if (line[0] == 'R') {
            real_mode = 1;
        } else if (line[0] == 'F') {
            long k; char kind[64];
            if (sscanf(line, "F %ld %63s", &k, kind) == 2 && k == n) strcpy(fault, kind);
        }
    }
    fclose(w);
    int exitc = 0, ok = 1, lenient = 0;
    const char *errmsg = "";
    char errbuf[256];
    int k = 0;
    for (int a = 1; a < argc; a++) if (strcmp(argv[a], "-f={{.Export}}") == 0) export_only = 1;
    for (int a = 1; a < argc; a++) {
        if (strcmp(argv[a], "list") == 0 || argv[a][0] == '-') continue;
        int i = -1;
        for (int j = 0; j < NP; j++) if (strcmp(P[j].name, argv[a]) == 0) i = j;
        if (i >= 0 && dir_b && (i & 1)) i = -1; /* not part of the module in the second directory */
        if (i < 0) {
            snprintf(errbuf, sizeof errbuf, "package %s is not in std\n", argv[a]);
            errmsg = errbuf; exitc = 1; ok = 0;
            break;
        }
        if (strcmp(fault, "list_partial") == 0) { if (k != 0) emit(i, 1); }
        else if (strcmp(fault, "list_missing_export") == 0) emit(i, k != 0);
        else if (strcmp(fault, "list_garbage") == 0) {
            if (k == 0) { outlen += snprintf(outbuf + outlen, sizeof outbuf - outlen, "this line is not a listing record\n"); ok = 0; lenient = 1; }
            emit(i, 1);
        } else if (strcmp(fault, "list_extra") == 0) {
            emit(i, 1);
            for (int j = 0; j < P[i].ndeps; j++) emit(P[i].deps[j], 1);
        } else emit(i, 1);
        k++;
    }
    if (strcmp(fault, "list_fail_stderr") == 0) { errmsg = "stubgo: induced listing failure\n"; exitc = 1; ok = 0; outlen = 0; lplen = 0; }
    else if (strcmp(fault, "list_fail_silent") == 0) { exitc = 1; ok = 0; outlen = 0; lplen = 0; }
    else if (strcmp(fault, "list_fail_after_output") == 0) { errmsg = "stubgo: failure after output\n"; exitc = 1; ok = 0; }
    else if (strcmp(fault, "list_cut_midline") == 0) {
        /* the command dies while printing: the last line stops inside the dependency list */
        errmsg = "stubgo: killed\n"; exitc = 1; ok = 0;
        while (outlen > 0 && outbuf[outlen-1] != '[' && outbuf[outlen-1] != ' ') outlen--;
        if (outlen > 0 && outbuf[outlen-1] == ' ') outlen--;
    }
    if (exitc == 0 && outlen == 0) { ok = 0; lenient = 1; }
    if (exitc != 0) lenient = 0;
    logprinted[lplen] = 0;
    snprintf(path, sizeof path, "%s/stub.log", root);
    int fd = open(path, O_WRONLY | O_CREAT | O_APPEND, 0644);
    if (fd >= 0) {
        char lb[1 << 16];
        int m = snprintf(lb, sizeof lb, "n=%ld\tfault=%s\tok=%d\tlenient=%d\texit=%d\tdir=%s\tprinted=%s\targs=", n, fault, ok, lenient, exitc, dir_b ? "B" : "A", logprinted);
        for (int a = 1; a < argc && m < (int)sizeof lb - 300; a++) {
            if (strncmp(argv[a], "-f=", 3) == 0) continue;
            m += snprintf(lb + m, sizeof lb - m, "%s%s", a > 1 ? " " : "", argv[a]);
        }
        lb[m++] = '\n';
        if (write(fd, lb, m) < 0) {}
        close(fd);
    }
    snprintf(path, sizeof path, "%s/stub.count", root);
    fd = open(path, O_WRONLY | O_CREAT | O_APPEND, 0644);
    if (fd >= 0) { if (write(fd, ".", 1) < 0) {} close(fd); }
    if (outlen && write(1, outbuf, outlen) < 0) {}
    if (*errmsg && write(2, errmsg, strlen(errmsg)) < 0) {}
    return exitc;
}
